// THROWAWAY: one-step refinement check of a plan-step reference model (C08/C09) from every reachable state.
#define FFSM2_ENABLE_PLANS
#define FFSM2_ENABLE_LOG_INTERFACE
#include <ffsm2/machine.hpp>
#include <cstdio>
#include <cstring>
#include <vector>
#include <string>
#include <unordered_map>
#include <deque>
#include <chrono>
#include <algorithm>
#ifndef NS
#define NS 2
#endif
#ifndef CAP
#define CAP 2
#endif
#ifndef DEV
#define DEV 2
#endif
#define LIM 2
enum K : uint8_t { XG, EG, ENTER, EXIT, REENTER, PHASE, CHANGE, CANCEL, SUCC, FAIL, LOGT, PLANOK, PLANFAIL };
struct Ev { uint8_t k, s, a, b; };
struct Drv { std::vector<uint8_t> prefix, menu, taken; std::vector<Ev> tr;
  void reset(const std::vector<uint8_t>& p){ prefix=p; menu.clear(); taken.clear(); tr.clear(); }
  unsigned choose(unsigned m){ unsigned i=menu.size(); unsigned c = i<prefix.size()?prefix[i]:0; menu.push_back(m); taken.push_back(c); return c; } } D;
using Cfg = ffsm2::Config::ContextT<int>::SubstitutionLimitN<LIM>::TaskCapacityN<CAP>;
using M = ffsm2::MachineT<Cfg>;
template<int I> struct St; struct Rt;
#if NS==2
using FSM = M::Root<Rt,St<0>,St<1>>;
#else
using FSM = M::Root<Rt,St<0>,St<1>,St<2>>;
#endif
// sub-state Full menu: 0 none | 1 succeed() | 2 fail() | 3.. changeTo(k) | 3+NS.. succeed(j) any j
template<typename C> static void full(C& c,uint8_t sid,uint8_t m){ D.tr.push_back({PHASE,sid,m,0}); unsigned k=D.choose(3+2*NS); if(!k) return;
  if(k==1){ c.succeed(); D.tr.push_back({SUCC,sid,sid,0}); return;} if(k==2){ c.fail(); D.tr.push_back({FAIL,sid,sid,0}); return;}
  k-=3; if(k<NS){ c.changeTo(k); D.tr.push_back({CHANGE,sid,uint8_t(k),0}); return;} k-=NS; c.succeed(k); D.tr.push_back({SUCC,sid,uint8_t(k),0}); }
// root Full menu: 0 none | changeTo(k) | succeed(k) | fail(k)
template<typename C> static void rfull(C& c,uint8_t m){ D.tr.push_back({PHASE,255,m,0}); unsigned k=D.choose(1+3*NS); if(!k) return; k-=1;
  if(k<NS){ c.changeTo(k); D.tr.push_back({CHANGE,255,uint8_t(k),0}); return;} k-=NS; if(k<NS){ c.succeed(k); D.tr.push_back({SUCC,255,uint8_t(k),0}); return;} k-=NS; c.fail(k); D.tr.push_back({FAIL,255,uint8_t(k),0}); }
template<typename C> static void guard(C& c,uint8_t sid,uint8_t kind){ D.tr.push_back({kind,sid,c.pendingTransition().destination,c.pendingTransition().origin}); unsigned k=D.choose(2); if(k==1){c.cancelPendingTransition(); D.tr.push_back({CANCEL,sid,0,0});} }
template<int I> struct St : FSM::State {
  void entryGuard(GuardControl& c){guard(c,I,EG);} void enter(PlanControl&){D.tr.push_back({ENTER,I,0,0});} void reenter(PlanControl&){D.tr.push_back({REENTER,I,0,0});}
  void preUpdate(FullControl& c){full(c,I,1);} void update(FullControl& c){full(c,I,2);} void postUpdate(FullControl& c){full(c,I,3);}
  void exitGuard(GuardControl& c){guard(c,I,XG);} void exit(PlanControl&){D.tr.push_back({EXIT,I,0,0});} };
struct Rt : FSM::State {
  void preUpdate(FullControl& c){rfull(c,1);} void update(FullControl& c){rfull(c,2);} void postUpdate(FullControl& c){rfull(c,3);}
  void planSucceeded(FullControl& c){ D.tr.push_back({PLANOK,255,0,0}); unsigned k=D.choose(1+NS); if(k){ c.changeTo(k-1); D.tr.push_back({CHANGE,255,uint8_t(k-1),0}); } }
  void planFailed(FullControl& c){ D.tr.push_back({PLANFAIL,255,0,0}); unsigned k=D.choose(1+NS+1); if(!k) return; if(k<=NS){ c.changeTo(k-1); D.tr.push_back({CHANGE,255,uint8_t(k-1),0}); } else c.plan().change(0,NS-1); } };
using Inst = FSM::Instance;
struct Log : Inst::Logger { void recordTransition(const Context&, const StateID o, const StateID t) override { D.tr.push_back({LOGT,o,t,0}); } } LG;
alignas(64) static unsigned char store[sizeof(Inst)];
static Inst* inst(){ return reinterpret_cast<Inst*>(store); }
struct Abs { int act; int reqO, reqD; std::vector<std::pair<int,int>> plan; bool succ[NS], fail[NS]; bool exists;
  bool operator==(const Abs& o) const { return act==o.act&&reqO==o.reqO&&reqD==o.reqD&&plan==o.plan&&exists==o.exists&&!memcmp(succ,o.succ,sizeof succ)&&!memcmp(fail,o.fail,sizeof fail); } };
static Abs alpha(){ Inst& m=*inst(); Abs a; a.act=m.activeStateId(); a.reqO=m._core.request.origin; a.reqD=m._core.request.destination; if(a.reqD==255) a.reqO=255; auto pl=m.plan(); for(auto it=pl.begin(); it; ++it) a.plan.push_back({it->origin,it->destination}); for(int i=0;i<NS;++i){ a.succ[i]=m._core.planData.tasksSuccesses.get(i); a.fail[i]=m._core.planData.tasksFailures.get(i);} a.exists=m._core.planData.planExists; return a; }
static std::string key(){ Inst& m=*inst(); auto& p=m._core.planData; std::string r; char b[48]; int n=snprintf(b,sizeof b,"%d|%d.%d|",m._core.registry.active,m._core.request.origin,m._core.request.destination); r.assign(b,n);
  r.append((const char*)&p.tasks,sizeof p.tasks); r.append((const char*)&p.taskLinks,sizeof p.taskLinks); r.append((const char*)&p.tasksBounds,sizeof p.tasksBounds); r.append((const char*)&p.tasksSuccesses,sizeof p.tasksSuccesses); r.append((const char*)&p.tasksFailures,sizeof p.tasksFailures); r.push_back(p.planExists?1:0); return r; }
// ops: 0 update | 1..NS changeTo | then NS*NS plan.change | NS succeed | NS fail | plan.clear
static const int NOPS=1+NS+NS*NS+2*NS+1;
static void apply(int op){ Inst& m=*inst(); if(op==0) m.update(); else if(op<=NS) m.changeTo(op-1); else { int q=op-1-NS; if(q<NS*NS) m.plan().change(q/NS,q%NS); else { q-=NS*NS; if(q<NS) m.succeed(q); else if(q<2*NS) m.fail(q-NS); else m.plan().clear(); } } }
static unsigned long viol[3]; static std::string firstW[3];
static std::string showAbs(const Abs& a){ char b[96]; std::string s; snprintf(b,sizeof b,"{act=%d req=%d->%d ex=%d s=",a.act,a.reqO,a.reqD,a.exists); s=b; for(int i=0;i<NS;++i) s+=a.succ[i]?'1':'0'; s+=" f="; for(int i=0;i<NS;++i) s+=a.fail[i]?'1':'0'; s+=" plan="; for(auto&t:a.plan){ snprintf(b,sizeof b,"%d>%d,",t.first,t.second); s+=b;} return s+"}"; }
static void flag(int p,const Abs& pre,int op,const Abs& exp,const Abs& got,const char* why){ if(!viol[p]++){ static const char* nm[]={"XG","EG","enter","exit","reenter","phase","CHANGE","CANCEL","SUCC","FAIL","LOGT","PLANOK","PLANFAIL"}; char b[64]; std::string s=std::string(why)+": pre="+showAbs(pre)+" op="+std::to_string(op)+" trace:"; for(auto&e:D.tr){ snprintf(b,sizeof b," %s(%d;%d)",nm[e.k],e.s,e.a); s+=b;} s+="\n        expected="+showAbs(exp)+"\n        got     ="+showAbs(got); firstW[p]=s; } }
// reference model: one step of update() given pre-state and the recorded trace (decisions are read off the trace)
static void model_update(const Abs& pre){
  Abs a=pre; int sub=0; // 0 none 1 succ 2 fail
  size_t i=0; auto& T=D.tr; std::vector<std::pair<int,int>> firedExp, firedGot; int outcomeExp=0, outcomeGot=0;
  // phases: consume events until first non-phase-related event
  int ts=0; int phaseOf=-1; 
  auto endSub=[&](int){ if(ts>sub) sub=ts; };
  // walk events of kinds PHASE/CHANGE/SUCC/FAIL/LOGT(following change) in order
  std::vector<Ev> ph; for(;i<T.size();++i){ if(T[i].k==PHASE||T[i].k==CHANGE||T[i].k==SUCC||T[i].k==FAIL||(T[i].k==LOGT && i+1<T.size() && T[i+1].k==CHANGE && T[i+1].s==T[i].s && T[i+1].a==T[i].a)) ph.push_back(T[i]); else break; }
  // expected phase sequence: (R,1)(A,1)(R,2)(A,2)(A,3)(R,3)
  int seqS[6]={255,pre.act,255,pre.act,pre.act,255}, seqM[6]={1,1,2,2,3,3}; int pi=-1; bool okOrder=true;
  for(auto&e:ph){ if(e.k==PHASE){ // close previous callback
      if(pi>=0){ if(seqS[pi]!=255) endSub(0); if(pi==1||pi==3||pi==5) ts=0; else if(pi==4) {} }
      ++pi; if(pi>5||e.s!=seqS[pi]||e.a!=seqM[pi]) okOrder=false; if(pi==0||pi==2||pi==4) ts=0; }
    else if(e.k==SUCC){ ts=1; a.succ[e.a]=true; } else if(e.k==FAIL){ ts=2; a.fail[e.a]=true; } else if(e.k==CHANGE){ a.reqO=e.s; a.reqD=e.a; } }
  if(pi>=0){ /* last is root post: ignored for sub */ }
  // NOTE on sub status: recompute precisely below
  { // precise recomputation following _taskStatus semantics
    sub=0; int t=0; int idx=-1; for(auto&e:ph){ if(e.k==PHASE){ if(idx>=0){ int s=seqS[idx]; if(s!=255){ if(t>sub) sub=t; } if(idx==1||idx==3||idx==5) t=0; } ++idx; if(idx==0||idx==2||idx==4) t=0; } else if(e.k==SUCC) t=1; else if(e.k==FAIL) t=2; }
    // last callback is idx==5 (root post): nothing for sub
  }
  if(!okOrder||pi!=5){ flag(1,pre,0,a,alpha(),"phase order"); return; }
  int st = sub; int bit = a.fail[pre.act]?2:(a.succ[pre.act]?1:0); if(bit>st) st=bit;
  if(st && a.exists){ if(st==2){ outcomeExp=2; } else if(!a.plan.empty()){ bool clr[NS]; for(int k=0;k<NS;++k) clr[k]=false; std::vector<std::pair<int,int>> rest; size_t j=0; for(; j<a.plan.size() && a.plan[j].first==pre.act; ++j){ auto t=a.plan[j]; if(a.succ[t.first]){ firedExp.push_back(t); a.reqO=t.first; a.reqD=t.second; if(t.first==t.second) a.succ[t.first]=false; else clr[t.first]=true; } else rest.push_back(t); } for(; j<a.plan.size(); ++j) rest.push_back(a.plan[j]); a.plan=rest; for(int k=0;k<NS;++k) if(clr[k]) a.succ[k]=false; } else outcomeExp=1; }
  // observed plan window: LOGT not followed by CHANGE => fired; PLANOK/PLANFAIL (+ optional CHANGE/LOGT inside)
  for(;i<T.size();++i){ if(T[i].k==LOGT && !(i+1<T.size()&&T[i+1].k==CHANGE)) firedGot.push_back({T[i].s,T[i].a}); else if(T[i].k==PLANOK||T[i].k==PLANFAIL){ outcomeGot=T[i].k==PLANOK?1:2; } else if(T[i].k==LOGT||T[i].k==CHANGE){ if(T[i].k==CHANGE){ a.reqO=T[i].s; a.reqD=T[i].a; } } else break; }
  if(outcomeExp){ a.plan.clear(); for(int k=0;k<NS;++k) a.succ[k]=a.fail[k]=false; }
  if(firedExp!=firedGot){ flag(1,pre,0,a,alpha(),"C08 fired list"); return; }
  if(outcomeExp!=outcomeGot){ flag(2,pre,0,a,alpha(),"C09 outcome callback"); return; }
  // processing (guards: none/cancel only), L rounds but no redirects => at most one round
  if(a.reqD!=255){ bool cancelled=false; for(;i<T.size();++i){ if(T[i].k==CANCEL) cancelled=true; else if(T[i].k==XG||T[i].k==EG) {} else break; }
    int d=a.reqD; a.reqO=a.reqD=255; if(!cancelled){ if(d!=a.act){ a.succ[a.act]=a.fail[a.act]=false; a.act=d; } } }
  Abs got=alpha(); if(!(a==got)) flag(1,pre,0,a,got,"C08/C09 post-state");
}
static void model_other(const Abs& pre,int op){ Abs a=pre; if(op<=NS){ a.reqO=255; a.reqD=op-1; } else { int q=op-1-NS; if(q<NS*NS){ if((int)a.plan.size()<CAP){ a.plan.push_back({q/NS,q%NS}); a.exists=true; } } else { q-=NS*NS; if(q<NS) a.succ[q]=true; else if(q<2*NS) a.fail[q-NS]=true; else { a.plan.clear(); for(int k=0;k<NS;++k) a.succ[k]=a.fail[k]=false; } } }
  Abs got=alpha(); if(!(a==got)) flag(1,pre,op,a,got,"non-update op post-state"); }
int main(){
  auto t0=std::chrono::steady_clock::now();
  std::unordered_map<std::string,std::vector<unsigned char>> seen; std::deque<std::string> fr; unsigned long execs=0;
  struct Item{std::vector<uint8_t> pre; int dev;};
  auto explore_op=[&](const std::vector<unsigned char>* snap,int op){ std::vector<Item> stack; stack.push_back({{},0});
    while(!stack.empty()){ Item it=stack.back(); stack.pop_back(); Abs pre;
      if(snap){ memcpy(store,snap->data(),sizeof(Inst)); pre=alpha(); }
      D.reset(it.pre); if(!snap){ memset(store,0xAA,sizeof store); new(store) Inst(0,&LG);} else apply(op); ++execs;
      if(snap){ if(op==0) model_update(pre); else model_other(pre,op); }
      std::string k=key(); if(!seen.count(k)){ seen[k]=std::vector<unsigned char>(store,store+sizeof(Inst)); fr.push_back(k);} 
      if(it.dev<DEV) for(size_t i=it.pre.size(); i<D.menu.size(); ++i) for(unsigned alt=1; alt<D.menu[i]; ++alt){ std::vector<uint8_t> p(D.taken.begin(),D.taken.begin()+i); p.push_back(alt); stack.push_back({p,it.dev+1}); } } };
  explore_op(nullptr,0);
  while(!fr.empty()){ std::string k=fr.front(); fr.pop_front(); std::vector<unsigned char> snap=seen[k]; for(int op=0;op<NOPS;++op) explore_op(&snap,op); }
  double s=std::chrono::duration<double>(std::chrono::steady_clock::now()-t0).count();
  printf("NS=%d CAP=%d DEV=%d states=%zu execs=%lu time=%.2fs rate=%.0f/s\n",NS,CAP,DEV,seen.size(),execs,s,execs/s);
  const char* nm[]={"","C08(+post-state)","C09"}; for(int p=1;p<=2;++p){ printf("  %s violations=%lu\n",nm[p],viol[p]); if(viol[p]) printf("     first: %s\n",firstW[p].c_str()); }
}
