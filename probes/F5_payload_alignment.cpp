#define FFSM2_ENABLE_PLANS
#include <ffsm2/machine.hpp>
#include <cstdio>
#include <cstddef>
struct P { double d; int v; };
using M = ffsm2::MachineT<ffsm2::Config::PayloadT<P>>;
struct A; struct B;
using FSM = M::PeerRoot<A,B>;
struct A : FSM::State {};
struct B : FSM::State { void enter(PlanControl& c){ auto* p=c.currentTransition().payload(); printf("B.enter payload=%p align%%8=%zu v=%d d=%g\n",(const void*)p,(size_t)p%8, p?p->v:-1, p?p->d:-1.0);} };
int main(){
  using T = FSM::Transition;
  printf("sizeof(Transition)=%zu alignof=%zu offsetof(storage)=%zu alignof(P)=%zu\n", sizeof(T), alignof(T), offsetof(T,storage), alignof(P));
  FSM::Instance m; m.changeWith<B>(P{2.5,7}); m.update();
  m.plan().changeWith<B,A>(P{1.5,9}); m.succeed(1); m.update();
  printf("active=%d\n",(int)m.activeStateId());
}
