// THROWAWAY: prototype explorer + independent trace monitors for C01/C02/C03/C04/C11 core predicates.
#define FFSM2_ENABLE_TRANSITION_HISTORY
#include <ffsm2/machine.hpp>
#include <cstdio>
#include <cstring>
#include <vector>
#include <string>
#include <unordered_map>
#include <deque>
#include <chrono>
#ifndef NS
#define NS 3
#endif
#ifndef LIM
#define LIM 2
#endif
#ifndef DEV
#define DEV 2
#endif
enum K : uint8_t { XG, EG, ENTER, EXIT, REENTER, PHASE, CHANGE, CANCEL };
struct Ev { uint8_t k, s, a, b; };
struct Drv { std::vector<uint8_t> prefix, menu, taken; std::vector<Ev> tr;
  void reset(const std::vector<uint8_t>& p){ prefix=p; menu.clear(); taken.clear(); tr.clear(); }
  unsigned choose(unsigned m){ unsigned i=menu.size(); unsigned c = i<prefix.size()?prefix[i]:0; menu.push_back(m); taken.push_back(c); return c; } } D;
using Cfg = ffsm2::Config::ContextT<int>::SubstitutionLimitN<LIM>;
using M = ffsm2::MachineT<Cfg>;
template<int I> struct St; struct Rt;
using FSM = M::Root<Rt,St<0>,St<1>,St<2>>;
template<typename C> static void full(C& c,uint8_t sid,uint8_t m){ D.tr.push_back({PHASE,sid,m,0}); unsigned k=D.choose(1+NS); if(k){ c.changeTo(k-1); D.tr.push_back({CHANGE,sid,uint8_t(k-1),0}); } }
template<typename C> static void guard(C& c,uint8_t sid,uint8_t kind){ D.tr.push_back({kind,sid,c.pendingTransition().destination,c.pendingTransition().origin}); unsigned k=D.choose(2+2*NS); if(!k) return; if(k==1){c.cancelPendingTransition(); D.tr.push_back({CANCEL,sid,0,0}); return;} k-=2; if(k>=NS){c.cancelPendingTransition(); D.tr.push_back({CANCEL,sid,0,0}); k-=NS;} c.changeTo(k); D.tr.push_back({CHANGE,sid,uint8_t(k),0}); }
template<int I> struct St : FSM::State {
  void entryGuard(GuardControl& c){guard(c,I,EG);} void enter(PlanControl&){D.tr.push_back({ENTER,I,0,0});} void reenter(PlanControl&){D.tr.push_back({REENTER,I,0,0});}
  void preUpdate(FullControl& c){full(c,I,1);} void update(FullControl& c){full(c,I,2);} void postUpdate(FullControl& c){full(c,I,3);}
  void exitGuard(GuardControl& c){guard(c,I,XG);} void exit(PlanControl&){D.tr.push_back({EXIT,I,0,0});} };
struct Rt : FSM::State {
  void entryGuard(GuardControl& c){guard(c,255,EG);} void enter(PlanControl&){D.tr.push_back({ENTER,255,0,0});}
  void preUpdate(FullControl& c){full(c,255,1);} void update(FullControl& c){full(c,255,2);} void postUpdate(FullControl& c){full(c,255,3);} void exit(PlanControl&){D.tr.push_back({EXIT,255,0,0});} };
using Inst = FSM::Instance;
alignas(64) static unsigned char store[sizeof(Inst)];
static Inst* inst(){ return reinterpret_cast<Inst*>(store); }
static std::string key(){ Inst& m=*inst(); char b[64]; int n=snprintf(b,sizeof b,"%d|%d.%d|%d.%d|%d", m._core.registry.active, m._core.request.origin,m._core.request.destination, m._core.previousTransition.origin,m._core.previousTransition.destination,m._core.registry.requested); return std::string(b,n); }
static const int NOPS=1+2*NS;
static void apply(int op){ Inst& m=*inst(); if(op==0) m.update(); else if(op<=NS) m.changeTo(op-1); else m.immediateChangeTo(op-1-NS); }
static unsigned long viol[8]; static std::string firstWitness[8];
static void flag(int p,const std::string& w){ if(!viol[p]++) firstWitness[p]=w; }
static std::string show(int op,uint8_t a0,uint8_t r0o,uint8_t r0d){ char b[64]; snprintf(b,sizeof b,"start act=%d req=%d->%d op=%d :",a0,r0o,r0d,op); std::string s=b; static const char* nm[]={"XG","EG","enter","exit","reenter","phase","CHANGE","CANCEL"}; for(auto&e:D.tr){ snprintf(b,sizeof b," %s(%d;%d,%d)",nm[e.k],e.s,e.a,e.b); s+=b;} snprintf(b,sizeof b," => act=%d prev=%d->%d",inst()->activeStateId(),inst()->previousTransition().origin,inst()->previousTransition().destination); return s+b; }
// monitors; op=-1 means activation
static void monitor(int op,uint8_t a0,uint8_t r0o,uint8_t r0d){
  Inst& m=*inst(); auto W=[&]{return show(op,a0,r0o,r0d);};
  // M01 pairing
  { int cur = (op<0)?-1:a0; bool rootIn = op>=0; bool ok=true;
    for(auto&e:D.tr){ if(e.k==ENTER){ if(e.s==255){ ok&=!rootIn&&cur<0; rootIn=true;} else { ok&=rootIn&&cur<0; cur=e.s; } } else if(e.k==EXIT){ if(e.s==255){ ok&=rootIn&&cur<0; rootIn=false;} else { ok&=cur==e.s; cur=-1; } } else if(e.k==REENTER) ok&=cur==e.s; }
    ok&= rootIn && cur==m.activeStateId(); if(!ok) flag(1,W()); }
  bool processes = op<0 || op==0 || op>NS; if(!processes){ if(m.activeStateId()!=a0) flag(2,W()); for(auto&e:D.tr) if(e.k<=REENTER) flag(2,W()); return; }
  // parse rounds
  struct Rd{ int subjD,subjO; bool cancelled; int xgState=-1, egState=-1; bool egAfterCancel=false; int lastReqD=-1,lastReqO=-1; };
  std::vector<Rd> rd; int lastReqD=(op>0&&op>NS)?(op-1-NS):( (r0d!=255)?r0d:-1 ), lastReqO=(op>NS)?255:r0o; // outstanding request before processing
  bool inGuards=false, lifecycleSeen=false, lifeBetween=false; int firstRoundIdx=-1;
  for(size_t i=0;i<D.tr.size();++i){ auto&e=D.tr[i];
    if(e.k==PHASE) continue;
    if(e.k==CHANGE){ if(rd.empty()){ lastReqD=e.a; lastReqO=e.s; } else { rd.back().lastReqD=e.a; rd.back().lastReqO=e.s; } continue; }
    if(e.k==CANCEL){ if(!rd.empty()) rd.back().cancelled=true; continue; }
    if(e.k==XG || (op<0 && e.k==EG && e.s==255)){ rd.push_back(Rd{e.a,e.b,false}); if(e.k==XG) rd.back().xgState=e.s; if(lifecycleSeen) lifeBetween=true; continue; }
    if(e.k==EG){ if(rd.empty()){ flag(3,W()); return;} if(rd.back().cancelled) rd.back().egAfterCancel=true; rd.back().egState=e.s; if(e.a!=rd.back().subjD||e.b!=rd.back().subjO) flag(3,W()); continue; }
    lifecycleSeen=true; }
  size_t first = (op<0)?1:0; // activation round 0 has empty pending
  // C04: rounds <= L
  if(rd.size() > first+LIM) flag(4,W());
  // C02(c)/C03(d): subjects chain
  if(rd.size()>first){ if(rd[first].subjD!=(op<0? rd[0].lastReqD : lastReqD)) flag(2,W());
    for(size_t r=first;r+1<rd.size();++r) if(rd[r+1].subjD!=rd[r].lastReqD || rd[r+1].subjO!=rd[r].lastReqO) flag(3,W()); }
  // C03(a,b,c)
  for(size_t r=first;r<rd.size();++r){ if(op>=0 && rd[r].xgState!=a0) flag(3,W()); if(rd[r].egState>=0 && rd[r].egState!=rd[r].subjD) flag(3,W()); if(rd[r].egAfterCancel) flag(3,W()); }
  if(lifeBetween) flag(3,W());
  // winner
  int wD=-1,wO=-1; for(size_t r=first;r<rd.size();++r) if(!rd[r].cancelled){ wD=rd[r].subjD; wO=rd[r].subjO; }
  int expect = wD>=0? wD : (op<0?0:a0);
  if(m.activeStateId()!=expect){ flag(2,W()); flag(3,W()); }
  // lifecycle shape
  { std::vector<Ev> lc; for(auto&e:D.tr) if(e.k>=ENTER&&e.k<=REENTER) lc.push_back(e); bool ok;
    if(op<0) ok = lc.size()==2 && lc[0].k==ENTER&&lc[0].s==255 && lc[1].k==ENTER&&lc[1].s==expect;
    else if(wD<0) ok = lc.empty(); else if(wD==a0) ok = lc.size()==1&&lc[0].k==REENTER&&lc[0].s==a0; else ok = lc.size()==2&&lc[0].k==EXIT&&lc[0].s==a0&&lc[1].k==ENTER&&lc[1].s==wD;
    if(!ok) flag(2,W()); }
  // C11 prev
  { auto& p=m.previousTransition(); bool ok = wD<0 ? p.destination==255 : (p.destination==wD && p.origin==wO); if(!ok) flag(5,W()); }
}
int main(){
  auto t0=std::chrono::steady_clock::now();
  std::unordered_map<std::string,std::vector<unsigned char>> seen; std::deque<std::string> fr; unsigned long execs=0;
  struct Item{std::vector<uint8_t> pre; int dev;};
  auto explore_op=[&](const std::vector<unsigned char>* snap,int op){ std::vector<Item> stack; stack.push_back({{},0});
    while(!stack.empty()){ Item it=stack.back(); stack.pop_back(); uint8_t a0=255,r0o=255,r0d=255;
      if(snap){ memcpy(store,snap->data(),sizeof(Inst)); a0=inst()->activeStateId(); r0o=inst()->_core.request.origin; r0d=inst()->_core.request.destination; }
      D.reset(it.pre); if(!snap){ memset(store,0xAA,sizeof store); new(store) Inst(0);} else apply(op); ++execs;
      monitor(snap?op:-1,a0,r0o,r0d);
      std::string k=key(); if(!seen.count(k)){ seen[k]=std::vector<unsigned char>(store,store+sizeof(Inst)); fr.push_back(k);} 
      if(it.dev<DEV) for(size_t i=it.pre.size(); i<D.menu.size(); ++i) for(unsigned alt=1; alt<D.menu[i]; ++alt){ std::vector<uint8_t> p(D.taken.begin(),D.taken.begin()+i); p.push_back(alt); stack.push_back({p,it.dev+1}); } } };
  explore_op(nullptr,0);
  while(!fr.empty()){ std::string k=fr.front(); fr.pop_front(); std::vector<unsigned char> snap=seen[k]; for(int op=0;op<NOPS;++op) explore_op(&snap,op); }
  double s=std::chrono::duration<double>(std::chrono::steady_clock::now()-t0).count();
  printf("NS=%d LIM=%d DEV=%d states=%zu execs=%lu time=%.2fs rate=%.0f/s\n",NS,LIM,DEV,seen.size(),execs,s,execs/s);
  const char* nm[]={"","C01","C02","C03","C04","C11"}; for(int p=1;p<=5;++p){ printf("  %s violations=%lu\n",nm[p],viol[p]); if(viol[p]) printf("     first: %s\n",firstWitness[p].c_str()); }
}
