#include <ffsm2/machine.hpp>
using M = ffsm2::MachineT<ffsm2::Config::ManualActivation>;
struct A; struct B;
using FSM = M::PeerRoot<A,B>;
struct A : FSM::State {}; struct B : FSM::State {};
int main(){ FSM::Instance m; m.enter(); m.immediateChangeTo<B>(); int r = m.activeStateId(); m.exit(); return r==1?0:1; }
