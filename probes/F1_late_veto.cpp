// F1 probe: 2nd-round veto
#define FFSM2_ENABLE_TRANSITION_HISTORY
#include <ffsm2/machine.hpp>
#include <cstdio>
using M = ffsm2::Machine;
struct A; struct B; struct C;
using FSM = M::PeerRoot<A,B,C>;
struct A : FSM::State { void enter(PlanControl&){puts("A.enter");} void exit(PlanControl&){puts("A.exit");} };
struct B : FSM::State {
  void entryGuard(GuardControl& c){ puts("B.entryGuard -> redirect C (no cancel)"); c.changeTo<C>(); }
  void enter(PlanControl&){puts("B.enter");} };
struct C : FSM::State {
  void entryGuard(GuardControl& c){ puts("C.entryGuard -> cancel"); c.cancelPendingTransition(); }
  void enter(PlanControl&){puts("C.enter");} };
int main(){ FSM::Instance m; m.changeTo<B>(); m.update();
  printf("active=%d prev.dest=%d\n",(int)m.activeStateId(),(int)m.previousTransition().destination); }
