// THROWAWAY feasibility prototype: BFS over canonical states of the real machine,
// per-op DFS over callback decisions with a deviation bound. Measures throughput/state counts only.
#define FFSM2_ENABLE_TRANSITION_HISTORY
#define FFSM2_ENABLE_PLANS
#include <ffsm2/machine.hpp>
#include <cstdio>
#include <cstring>
#include <vector>
#include <string>
#include <unordered_map>
#include <deque>
#include <chrono>
#ifndef NS
#define NS 3
#endif
#ifndef LIM
#define LIM 2
#endif
#ifndef CAP
#define CAP 2
#endif
#ifndef DEV
#define DEV 2
#endif
struct Drv {
  std::vector<uint8_t> prefix; std::vector<uint8_t> menu; // menu sizes encountered
  std::vector<uint8_t> taken; unsigned sites=0; unsigned long trace_hash=1469598103934665603ul;
  void reset(const std::vector<uint8_t>& p){ prefix=p; menu.clear(); taken.clear(); sites=0; trace_hash=1469598103934665603ul; }
  void ev(unsigned x){ trace_hash=(trace_hash^x)*1099511628211ul; }
  unsigned choose(unsigned m){ unsigned i=menu.size(); unsigned c = i<prefix.size()?prefix[i]:0; menu.push_back(m); taken.push_back(c); return c; }
} D;
using Cfg = ffsm2::Config::ContextT<int>::SubstitutionLimitN<LIM>::TaskCapacityN<CAP>;
using M = ffsm2::MachineT<Cfg>;
template<int I> struct St; struct Rt;
#if NS==2
using FSM = M::Root<Rt,St<0>,St<1>>;
#elif NS==3
using FSM = M::Root<Rt,St<0>,St<1>,St<2>>;
#else
using FSM = M::Root<Rt,St<0>,St<1>,St<2>,St<3>>;
#endif
template<typename C> static void full(C& c,int sid,int m){ D.ev(sid*16+m); unsigned k=D.choose(3+NS); if(!k) return; if(k==1){ if(sid<15) c.succeed(); return;} if(k==2){ if(sid<15) c.fail(); return;} c.changeTo(k-3); }
template<typename C> static void guard(C& c,int sid,int m){ D.ev(sid*16+m); D.ev(c.pendingTransition().destination); unsigned k=D.choose(2+2*NS); if(!k) return; if(k==1){c.cancelPendingTransition();return;} k-=2; if(k>=NS){c.cancelPendingTransition();k-=NS;} c.changeTo(k); }
template<typename C> static void plain(C&,int sid,int m){ D.ev(sid*16+m); }
template<int I> struct St : FSM::State {
  void entryGuard(GuardControl& c){guard(c,I,1);} void enter(PlanControl& c){plain(c,I,2);} void reenter(PlanControl& c){plain(c,I,3);}
  void preUpdate(FullControl& c){full(c,I,4);} void update(FullControl& c){full(c,I,5);} void postUpdate(FullControl& c){full(c,I,6);}
  void exitGuard(GuardControl& c){guard(c,I,7);} void exit(PlanControl& c){plain(c,I,8);} };
struct Rt : FSM::State {
  void entryGuard(GuardControl& c){guard(c,15,1);} void enter(PlanControl& c){plain(c,15,2);}
  void preUpdate(FullControl& c){full(c,15,4);} void update(FullControl& c){full(c,15,5);} void postUpdate(FullControl& c){full(c,15,6);} void exit(PlanControl& c){plain(c,15,8);} void planSucceeded(FullControl& c){plain(c,15,9);} void planFailed(FullControl& c){plain(c,15,10);} };
using Inst = FSM::Instance;
alignas(64) static unsigned char store[sizeof(Inst)];
static Inst* inst(){ return reinterpret_cast<Inst*>(store); }
static std::string key(){ Inst& m=*inst(); char b[64]; int n=snprintf(b,sizeof b,"%d|%d.%d|%d.%d|%d", m._core.registry.active, m._core.request.origin,m._core.request.destination, m._core.previousTransition.origin,m._core.previousTransition.destination,m._core.registry.requested); std::string r(b,n); auto& p=m._core.planData; r.append((const char*)&p.tasks,sizeof p.tasks); r.append((const char*)&p.taskLinks,sizeof p.taskLinks); r.append((const char*)&p.tasksBounds,sizeof p.tasksBounds); r.append((const char*)&p.tasksSuccesses,sizeof p.tasksSuccesses); r.append((const char*)&p.tasksFailures,sizeof p.tasksFailures); r.push_back(p.planExists?1:0); return r; }
// ops: 0=update, 1..NS changeTo(k-1), NS+1..2NS immediateChangeTo
static const int NOPS=1+2*NS+NS*NS+2*NS+1;
static void apply(int op){ Inst& m=*inst(); D.ev(1000+op); if(op==0) m.update(); else if(op<=NS) m.changeTo(op-1); else if(op<=2*NS) m.immediateChangeTo(op-1-NS); else { int q=op-1-2*NS; if(q<NS*NS) m.plan().change(q/NS,q%NS); else { q-=NS*NS; if(q<NS) m.succeed(q); else if(q<2*NS) m.fail(q-NS); else m.plan().clear(); } } }
int main(){
  auto t0=std::chrono::steady_clock::now();
  std::unordered_map<std::string,std::vector<unsigned char>> seen; std::deque<std::string> fr;
  unsigned long execs=0, trans=0; std::unordered_map<unsigned long,int> outcomes;
  // initial states: construct with every decision vector (activation), deviation-bounded
  struct Item{std::vector<uint8_t> pre; int dev;};
  auto explore_op=[&](const std::vector<unsigned char>* snap,int op){
    std::vector<Item> stack; stack.push_back({{},0});
    while(!stack.empty()){ Item it=stack.back(); stack.pop_back();
      if(snap) memcpy(store,snap->data(),sizeof(Inst)); 
      D.reset(it.pre);
      if(!snap){ memset(store,0xAA,sizeof store); new(store) Inst(0); } else apply(op);
      ++execs; ++trans; outcomes[D.trace_hash]++;
      std::string k=key();
      if(!seen.count(k)){ seen[k]=std::vector<unsigned char>(store,store+sizeof(Inst)); fr.push_back(k);} 
      if(it.dev<DEV) for(size_t i=it.pre.size(); i<D.menu.size(); ++i) for(unsigned alt=1; alt<D.menu[i]; ++alt){ std::vector<uint8_t> p(D.taken.begin(),D.taken.begin()+i); p.push_back(alt); stack.push_back({p,it.dev+1}); }
    } };
  explore_op(nullptr,0);
  while(!fr.empty()){ std::string k=fr.front(); fr.pop_front(); std::vector<unsigned char> snap=seen[k]; for(int op=0;op<NOPS;++op) explore_op(&snap,op); }
  double s=std::chrono::duration<double>(std::chrono::steady_clock::now()-t0).count();
  printf("NS=%d LIM=%d DEV=%d states=%zu execs=%lu distinct_traces=%zu time=%.2fs rate=%.0f/s\n",NS,LIM,DEV,seen.size(),execs,outcomes.size(),s,execs/s);
}
