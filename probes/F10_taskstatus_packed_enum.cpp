#define FFSM2_ENABLE_PLANS
#include <ffsm2/machine.hpp>
#include <cstdio>
#include <cstddef>
using M = ffsm2::Machine;
struct R; struct A; struct B; struct C;
using FSM = M::Root<R,A,B,C>;
struct R : FSM::State {}; struct A : FSM::State { void update(FullControl& c){ c.succeed(); } }; struct B : FSM::State {}; struct C : FSM::State {};
int main(){ FSM::Instance m; 
  printf("alignof(TaskStatus)=%zu sizeof=%zu; &subStatus %% 4 = %zu\n", alignof(ffsm2::detail::TaskStatus), sizeof(ffsm2::detail::TaskStatus), (size_t)&m._core.planData.subStatus % 4);
  m.update(); printf("active=%d\n",(int)m.activeStateId()); }
