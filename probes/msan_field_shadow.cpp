#define FFSM2_ENABLE_PLANS
#define FFSM2_ENABLE_TRANSITION_HISTORY
#include <ffsm2/machine.hpp>
#include <sanitizer/msan_interface.h>
#include <cstdio>
#include <cstring>
#include <new>
using M = ffsm2::MachineT<ffsm2::Config::ContextT<int>::TaskCapacityN<2>>;
struct A; struct B; using FSM = M::PeerRoot<A,B>;
struct A : FSM::State {}; struct B : FSM::State {};
using Inst = FSM::Instance;
alignas(64) static unsigned char store[sizeof(Inst)];
#define T(f) do{ long r=__msan_test_shadow(&(f), sizeof(f)); printf("  %-40s size=%zu first-uninit-offset=%ld\n", #f, sizeof(f), r);}while(0)
int main(){
  __msan_poison(store,sizeof store);
  Inst* m = new(store) Inst(0);
  auto& c = m->_core; auto& p = c.planData;
  printf("after construction (sizeof Inst=%zu, whole-object first uninit offset=%ld)\n", sizeof(Inst), (long)__msan_test_shadow(store,sizeof store));
  T(c.previousTransition); T(c.context); T(c.registry); T(c.request); T(p.tasks); T(p.taskLinks); T(p.tasksBounds); T(p.tasksSuccesses); T(p.tasksFailures); T(p.planExists); T(p.headStatus); T(p.subStatus);
  T(p.tasks._vacantHead); T(p.tasks._items);
  m->plan().change(0,1); m->plan().change(1,0); m->succeed(0); m->update(); m->update();
  printf("after ops: whole-object first uninit offset=%ld\n",(long)__msan_test_shadow(store,sizeof store));
  T(p.tasks); T(p.taskLinks);
}
