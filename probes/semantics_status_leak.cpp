#define FFSM2_ENABLE_PLANS
#define FFSM2_ENABLE_TRANSITION_HISTORY
#define FFSM2_ENABLE_SERIALIZATION
#define FFSM2_ENABLE_LOG_INTERFACE
#include <ffsm2/machine.hpp>
#include <cstdio>
#include <functional>
#include <map>
#include <string>
using Cfg = ffsm2::Config::ManualActivation::SubstitutionLimitN<2>::TaskCapacityN<3>;
using M = ffsm2::MachineT<Cfg>;
struct R; template<int I> struct S;
using FSM = M::Root<R,S<0>,S<1>,S<2>>;
using FC = FSM::FullControl; using GC = FSM::GuardControl;
static FSM::Instance* g; static int act();
static std::map<std::string,std::function<void(FC&)>> F; static std::map<std::string,std::function<void(GC&)>> G;
static std::string nm(int s,const char* m){ return (s==255?std::string("R"):std::string("S")+char('0'+s))+"."+m; }
static void say(int s,const char* m){ printf(" %s[act=%d]", nm(s,m).c_str(), act()); }
template<typename C> static void ff(C& c,int s,const char* m){ say(s,m); auto it=F.find(nm(s,m)); if(it!=F.end()) it->second(c); }
static void gg(GC& c,int s,const char* m){ say(s,m); printf("{pend=%d cur=%d req=%d}",(int)c.pendingTransition().destination,(int)c.currentTransition().destination,(int)c.request().destination); auto it=G.find(nm(s,m)); if(it!=G.end()) it->second(c); }
template<int I> struct S : FSM::State {
  void entryGuard(GuardControl& c){gg(c,I,"entryGuard");} void exitGuard(GuardControl& c){gg(c,I,"exitGuard");}
  void enter(PlanControl&){say(I,"enter");} void reenter(PlanControl&){say(I,"reenter");} void exit(PlanControl&){say(I,"exit");}
  void preUpdate(FullControl& c){ff(c,I,"preUpdate");} void update(FullControl& c){ff(c,I,"update");} void postUpdate(FullControl& c){ff(c,I,"postUpdate");} };
struct R : FSM::State {
  void entryGuard(GuardControl& c){gg(c,255,"entryGuard");} void exitGuard(GuardControl& c){gg(c,255,"exitGuard");}
  void enter(PlanControl& c){say(255,"enter"); printf("{ctl.isActive(0)=%d}",(int)c.isActive(0));} void exit(PlanControl& c){say(255,"exit"); printf("{ctl.isActive(act)=%d}",(int)c.isActive(static_cast<ffsm2::StateID>(act())));}
  void preUpdate(FullControl& c){ff(c,255,"preUpdate");} void update(FullControl& c){ff(c,255,"update");} void postUpdate(FullControl& c){ff(c,255,"postUpdate");}
  void planSucceeded(FullControl& c){ff(c,255,"planSucceeded");} void planFailed(FullControl& c){ff(c,255,"planFailed");} };
static int act(){ return g->activeStateId(); }
struct Log : FSM::Instance::Logger { 
  void recordMethod(const Context&, const StateID o, const Method m) override { printf(" <M %d %s>",(int)o,ffsm2::methodName(m)); }
  void recordTransition(const Context&, const StateID o, const StateID t) override { printf(" <T %d->%d>",(int)o,(int)t); }
  void recordTaskStatus(const Context&, const StateID o, const StatusEvent e) override { printf(" <TS %d %s>",(int)o,e==StatusEvent::SUCCEEDED?"ok":"fail"); }
  void recordCancelledPending(const Context&, const StateID o) override { printf(" <X %d>",(int)o); } };
static void plan(const char* t){ printf("\n   plan(%s):",t); { auto pl=g->plan(); for(auto it=pl.begin(); it; ++it) printf(" %d->%d",(int)it->origin,(int)it->destination); } printf(" | act=%d prev=%d req?",(int)g->activeStateId(),(int)g->previousTransition().destination); }
#define STEP(label, expr) do{ printf("\n %-28s:", label); expr; }while(0)
static void reset(){ F.clear(); G.clear(); }
int main(){
  Log lg; FSM::Instance m{&lg}; g=&m; m.enter(); m.immediateChangeTo(1);
  puts("\n== (a) R.update fail(2) [2 inactive], plan [1->2]: planFailed this cycle?"); reset(); m.plan().change(1,2); F["R.update"]=[](FC& c){c.fail(2);}; STEP("update()", m.update()); plan("after");
  puts("\n== (b) R.postUpdate fail(2), plan [1->2]: planFailed this cycle? next?"); reset(); m.plan().clear(); m.plan().change(1,2); F["R.postUpdate"]=[](FC& c){c.fail(2);}; STEP("update()", m.update()); plan("after"); reset(); STEP("update()", m.update()); plan("after");
  puts("\n== (c) R.preUpdate succeed(2), plan empty (existed): planSucceeded?"); reset(); m.plan().clear(); F["R.preUpdate"]=[](FC& c){c.succeed(2);}; STEP("update()", m.update()); plan("after");
  puts("\n== (d) S1.update fail(2) then nothing; plan [1->2]"); reset(); m.plan().change(1,2); F["S1.update"]=[](FC& c){c.fail(2);}; STEP("update()", m.update()); plan("after");
  puts("\n== (e) S1.preUpdate fail(2), S1.update succeed(): which wins? plan [1->2]"); reset(); m.plan().clear(); m.plan().change(1,2); F["S1.preUpdate"]=[](FC& c){c.fail(2);}; F["S1.update"]=[](FC& c){c.succeed();}; STEP("update()", m.update()); plan("after");
  puts(""); m.exit(); }
