// THROWAWAY: closure over all internal states of TaskListT<void,C> vs. a model; BitArrayT closure.
#define FFSM2_ENABLE_PLANS
#include <ffsm2/machine.hpp>
#include <cstdio>
#include <cstring>
#include <string>
#include <vector>
#include <map>
#include <set>
#include <deque>
using namespace ffsm2::detail;
template<int C> struct TL {
  using L = TaskListT<void,C>;
  struct Node { L l; std::map<int,std::pair<int,int>> model; int next=0; };
  static std::string key(const Node& n){ std::string k((const char*)&n.l,sizeof(L)); for(auto&kv:n.model){ k.push_back(kv.first); k.push_back(kv.second.first); k.push_back(kv.second.second);} return k; }
  static bool structure(const L& l,const std::map<int,std::pair<int,int>>& model,const char*& why){
    if(l.count()!=(int)model.size()){ why="count"; return false; }
    for(auto&kv:model){ const auto& t=l[kv.first]; if(t.origin!=kv.second.first||t.destination!=kv.second.second){ why="content"; return false; } }
    // free list walk
    if(l._count<C){ std::set<int> vac; int c=l._vacantHead; if(c>=C){ why="head range"; return false;} if(l._vacantHead!=l._vacantTail && l._items[c].prev!=L::INVALID){ why="head.prev"; return false;} int steps=0; while(true){ if(model.count(c)){ why="occupied slot in free list"; return false;} if(!vac.insert(c).second){ why="free list loop"; return false;} if(c==l._vacantTail) break; int f=l._items[c].next; if(f>=C){ why="broken link"; return false;} if(l._items[f].prev!=c){ why="prev link"; return false;} c=f; if(++steps>C){ why="too long"; return false;} }
      // every slot is occupied, in the free list, or beyond _last (never used)
      for(int i=0;i<C;++i) if(!model.count(i)&&!vac.count(i)&&i<=l._last&&i!=l._last){ /* slots below _last must be accounted */ why="leaked slot"; return false; } }
    else { if(l._vacantHead!=L::INVALID||l._vacantTail!=L::INVALID){ why="full but vacant set"; return false; } }
    return true; }
  static void run(){ std::set<std::string> seen; std::deque<Node> fr; Node n0; seen.insert(key(n0)); fr.push_back(n0); unsigned long trans=0,bad=0; const char* why=""; size_t maxModel=0;
    while(!fr.empty()){ Node n=fr.front(); fr.pop_front();
      // ops: emplace, remove(i) for each occupied, clear
      std::vector<int> ops; ops.push_back(-1); ops.push_back(-2); for(auto&kv:n.model) ops.push_back(kv.first);
      for(int op:ops){ Node m=n; ++trans;
        if(op==-1){ int lab=m.next++%7; auto idx=m.l.emplace(ffsm2::Long(lab),ffsm2::Long(lab+1)); if((int)m.model.size()<C){ if(idx==L::INVALID||m.model.count(idx)){ if(!bad++) printf("C=%d emplace returned %d (occupied/invalid)\n",C,(int)idx); continue;} m.model[idx]={lab,lab+1}; } else { if(idx!=L::INVALID){ if(!bad++) printf("C=%d emplace on full returned %d\n",C,(int)idx); continue; } } }
        else if(op==-2){ m.l.clear(); m.model.clear(); }
        else { m.l.remove(op); m.model.erase(op); }
        if(!structure(m.l,m.model,why)){ if(!bad++) printf("C=%d structure violated after op %d: %s\n",C,op,why); continue; }
        m.next%=7; maxModel=std::max(maxModel,m.model.size()); std::string k=key(m); if(seen.insert(k).second) fr.push_back(m); } }
    printf("TaskListT<void,%d>: states=%zu transitions=%lu bad=%lu (max occupancy %zu)\n",C,seen.size(),trans,bad,maxModel); } };
template<int C> struct BA { static void run(){ using B=BitArrayT<C>; std::set<std::string> seen; std::deque<std::pair<B,unsigned>> fr; B b0; fr.push_back({b0,0u}); seen.insert(std::string((const char*)&b0,sizeof b0)); unsigned long trans=0,bad=0;
    auto chk=[&](const B& b,unsigned m,const char* op){ for(int i=0;i<C;++i) if(b.get(i)!=((m>>i)&1)){ if(!bad++) printf("BitArray<%d> get(%d) wrong after %s\n",C,i,op); return; } if(b.empty()!=(m==0)){ if(!bad++) printf("BitArray<%d> empty()=%d but model=%x after %s\n",C,(int)b.empty(),m,op); } };
    while(!fr.empty()){ auto cur=fr.front(); fr.pop_front(); auto push=[&](B& b,unsigned m,const char* op){ ++trans; chk(b,m,op); std::string k((const char*)&b,sizeof b); if(seen.insert(k).second) fr.push_back({b,m}); };
      for(int i=0;i<C;++i){ { B b=cur.first; b.set(i); push(b,cur.second|(1u<<i),"set(i)"); } { B b=cur.first; b.clear(i); push(b,cur.second&~(1u<<i),"clear(i)"); } }
      { B b=cur.first; b.set(); push(b,(1u<<C)-1,"set()"); } { B b=cur.first; b.clear(); push(b,0,"clear()"); } }
    printf("BitArrayT<%d>: states=%zu transitions=%lu bad=%lu\n",C,seen.size(),trans,bad); } };
int main(){ TL<1>::run(); TL<2>::run(); TL<3>::run(); TL<4>::run(); TL<5>::run(); TL<6>::run(); BA<1>::run(); BA<7>::run(); BA<8>::run(); BA<9>::run(); BA<12>::run(); }
