#define FFSM2_ENABLE_PLANS
#define FFSM2_ENABLE_TRANSITION_HISTORY
#include <ffsm2/machine.hpp>
#include <cstdio>
#include <new>
#include <cstring>
#include <initializer_list>
using M = ffsm2::Machine;
struct A; struct B; struct C;
using FSM = M::PeerRoot<A,B,C>;
struct A : FSM::State {};
struct B : FSM::State { void update(FullControl& c){ printf("in B.update: control.isActive(0)=%d isActive(1)=%d isActive(2)=%d\n", c.isActive(0), c.isActive(1), c.isActive(2)); } };
struct C : FSM::State {};
int main(){
  { FSM::Instance m; m.immediateChangeTo<B>(); printf("machine.isActive(0)=%d active=%d\n", m.isActive(0), (int)m.activeStateId()); m.update();
    // plan headed by origin 0 while B active; later task B->C; B succeeds
    m.plan().change<A,C>(); m.plan().change<B,C>(); m.succeed(1); m.update();
    printf("F2/C08: after update active=%d (task B->C jumped over head task A->C if 2)\n",(int)m.activeStateId());
    // F3 copy
    FSM::Instance c2{m};
    printf("F3: orig prev.dest=%d copy prev.dest=%d\n",(int)m.previousTransition().destination,(int)c2.previousTransition().destination);
  }
  // F6: planExists uninit: construct in 0xFF-filled and 0x00-filled storage, no plan ever, state succeeds
  for (int fill : {0x00, 0xFF}) {
    alignas(64) static unsigned char buf[sizeof(FSM::Instance)];
    memset(buf, fill, sizeof buf);
    struct R2; 
    auto* m = new (buf) FSM::Instance;
    m->succeed(0); m->update();
    { using I = FSM::Instance; m->~I(); }
  }
}
