#define FFSM2_ENABLE_LOG_INTERFACE
#include <ffsm2/machine.hpp>
#include <cstdio>
using M = ffsm2::Machine;
struct A; struct B;
using FSM = M::PeerRoot<A,B>;
template<int N> struct I : FSM::State {
  void enter(PlanControl&){printf("I%d.enter ",N);} void exit(PlanControl&){printf("I%d.exit ",N);}
  void update(FullControl&){printf("I%d.update ",N);} void postUpdate(FullControl&){printf("I%d.postUpdate ",N);}
  void exitGuard(GuardControl&){printf("I%d.exitGuard ",N);} void entryGuard(GuardControl&){printf("I%d.entryGuard ",N);}
};
struct A : FSM::StateT<I<1>,I<2>,I<3>> {
#ifdef OWN
  void enter(PlanControl&){printf("A.enter ");} void exit(PlanControl&){printf("A.exit ");}
  void update(FullControl&){printf("A.update ");} void postUpdate(FullControl&){printf("A.postUpdate ");}
  void exitGuard(GuardControl&){printf("A.exitGuard ");} void entryGuard(GuardControl&){printf("A.entryGuard ");}
  void reenter(PlanControl&){} void preUpdate(FullControl&){}
#endif
};
struct B : FSM::State {};
int main(){ FSM::Instance m; puts(""); m.update(); puts(""); m.immediateChangeTo<B>(); puts(""); }
