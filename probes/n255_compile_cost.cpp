#define FFSM2_ENABLE_SERIALIZATION
#include <ffsm2/machine.hpp>
#include <cstdio>
#ifndef NSTATES
#define NSTATES 255
#endif
struct Ctx { int last_enter=-1, last_exit=-1, last_update=-1, n=0; const void* self=nullptr; };
using M = ffsm2::MachineT<ffsm2::Config::ContextT<Ctx&>::ManualActivation>;
template<int I> struct St;
template<int... Is> struct Seq {};
template<int N, int... Is> struct Gen : Gen<N-1, N-1, Is...> {};
template<int... Is> struct Gen<0, Is...> { using type = Seq<Is...>; };
template<typename> struct Mk;
template<int... Is> struct Mk<Seq<Is...>> { using FSM = M::PeerRoot<St<Is>...>; };
using FSM = Mk<Gen<NSTATES>::type>::FSM;
template<int I> struct St : FSM::State {
  void enter(PlanControl& c){ c._().last_enter=I; c._().n++; c._().self=this; }
  void exit (PlanControl& c){ c._().last_exit=I; c._().n++; }
  void update(FullControl& c){ c._().last_update=I; c._().n++; }
};
template<int I> struct Chk { static bool run(FSM::Instance& m, Ctx& c){
  bool ok = FSM::stateId<St<I>>()==I;
  m.immediateChangeTo(I); ok &= (c.last_enter==I) && m.activeStateId()==I && c.self==&m.access<St<I>>();
  m.update(); ok &= c.last_update==I;
  FSM::Instance::SerialBuffer b; m.save(b);
  return ok && Chk<I-1>::run(m,c); } };
template<> struct Chk<-1> { static bool run(FSM::Instance&, Ctx&){return true;} };
int main(){ Ctx c; FSM::Instance m{c}; m.enter(); bool ok=Chk<NSTATES-1>::run(m,c); m.exit(); printf("N=%d ok=%d serial bits=%d\n",NSTATES,(int)ok,(int)FSM::Instance::SerialBuffer::BIT_CAPACITY); return !ok; }
