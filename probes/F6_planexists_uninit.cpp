#define FFSM2_ENABLE_PLANS
#include <ffsm2/machine.hpp>
#include <cstdio>
#include <new>
#include <cstring>
#include <initializer_list>
using M = ffsm2::Machine;
struct R; struct A; struct B;
using FSM = M::Root<R,A,B>;
struct R : FSM::State { void planSucceeded(FullControl&){puts("  planSucceeded delivered");} void planFailed(FullControl&){puts("  planFailed delivered");} };
struct A : FSM::State {}; struct B : FSM::State {};
int main(){
  for (int fill : {0x00, 0xFF}) {
    alignas(64) static unsigned char buf[sizeof(FSM::Instance)];
    memset(buf, fill, sizeof buf); POISON(buf, sizeof buf);
    printf("fill=%02x\n", fill);
    auto* m = new (buf) FSM::Instance;
    m->succeed(0); m->update();
    { using I = FSM::Instance; m->~I(); }
  }
}
