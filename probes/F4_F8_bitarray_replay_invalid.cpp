#define FFSM2_ENABLE_PLANS
#define FFSM2_ENABLE_TRANSITION_HISTORY
#include <ffsm2/machine.hpp>
#include <cstdio>
using M = ffsm2::Machine;
struct A; struct B;
using FSM = M::PeerRoot<A,B>;
struct A : FSM::State {}; struct B : FSM::State {};
int main(){
  ffsm2::detail::BitArrayT<12> b; b.set(); for (int i=0;i<12;++i) b.clear(i);
  int any=0; for (int i=0;i<12;++i) any|=b.get(i);
  printf("BitArrayT<12>: set-all, clear each: any get()=%d empty()=%d  (model: empty=1)\n", any, (int)b.empty());
  ffsm2::detail::BitArrayT<16> c; c.set(); for (int i=0;i<16;++i) c.clear(i); printf("BitArrayT<16>: empty()=%d\n",(int)c.empty());
  FSM::Instance m; m.immediateChangeTo<B>();
  printf("prev.dest before replay(INVALID)=%d\n",(int)m.previousTransition().destination);
  bool r=m.replayTransition(ffsm2::INVALID_STATE_ID);
  printf("replay(INVALID) returned %d, prev.dest after=%d active=%d\n",(int)r,(int)m.previousTransition().destination,(int)m.activeStateId());
}
