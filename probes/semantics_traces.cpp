#define FFSM2_ENABLE_PLANS
#define FFSM2_ENABLE_TRANSITION_HISTORY
#define FFSM2_ENABLE_SERIALIZATION
#define FFSM2_ENABLE_LOG_INTERFACE
#include <ffsm2/machine.hpp>
#include <cstdio>
#include <functional>
#include <map>
#include <string>
using Cfg = ffsm2::Config::ManualActivation::SubstitutionLimitN<2>::TaskCapacityN<3>;
using M = ffsm2::MachineT<Cfg>;
struct R; template<int I> struct S;
using FSM = M::Root<R,S<0>,S<1>,S<2>>;
using FC = FSM::FullControl; using GC = FSM::GuardControl;
static FSM::Instance* g; static int act();
static std::map<std::string,std::function<void(FC&)>> F; static std::map<std::string,std::function<void(GC&)>> G;
static std::string nm(int s,const char* m){ return (s==255?std::string("R"):std::string("S")+char('0'+s))+"."+m; }
static void say(int s,const char* m){ printf(" %s[act=%d]", nm(s,m).c_str(), act()); }
template<typename C> static void ff(C& c,int s,const char* m){ say(s,m); auto it=F.find(nm(s,m)); if(it!=F.end()) it->second(c); }
static void gg(GC& c,int s,const char* m){ say(s,m); printf("{pend=%d cur=%d req=%d}",(int)c.pendingTransition().destination,(int)c.currentTransition().destination,(int)c.request().destination); auto it=G.find(nm(s,m)); if(it!=G.end()) it->second(c); }
template<int I> struct S : FSM::State {
  void entryGuard(GuardControl& c){gg(c,I,"entryGuard");} void exitGuard(GuardControl& c){gg(c,I,"exitGuard");}
  void enter(PlanControl&){say(I,"enter");} void reenter(PlanControl&){say(I,"reenter");} void exit(PlanControl&){say(I,"exit");}
  void preUpdate(FullControl& c){ff(c,I,"preUpdate");} void update(FullControl& c){ff(c,I,"update");} void postUpdate(FullControl& c){ff(c,I,"postUpdate");} };
struct R : FSM::State {
  void entryGuard(GuardControl& c){gg(c,255,"entryGuard");} void exitGuard(GuardControl& c){gg(c,255,"exitGuard");}
  void enter(PlanControl& c){say(255,"enter"); printf("{ctl.isActive(0)=%d}",(int)c.isActive(0));} void exit(PlanControl& c){say(255,"exit"); printf("{ctl.isActive(act)=%d}",(int)c.isActive(static_cast<ffsm2::StateID>(act())));}
  void preUpdate(FullControl& c){ff(c,255,"preUpdate");} void update(FullControl& c){ff(c,255,"update");} void postUpdate(FullControl& c){ff(c,255,"postUpdate");}
  void planSucceeded(FullControl& c){ff(c,255,"planSucceeded");} void planFailed(FullControl& c){ff(c,255,"planFailed");} };
static int act(){ return g->activeStateId(); }
struct Log : FSM::Instance::Logger { 
  void recordMethod(const Context&, const StateID o, const Method m) override { printf(" <M %d %s>",(int)o,ffsm2::methodName(m)); }
  void recordTransition(const Context&, const StateID o, const StateID t) override { printf(" <T %d->%d>",(int)o,(int)t); }
  void recordTaskStatus(const Context&, const StateID o, const StatusEvent e) override { printf(" <TS %d %s>",(int)o,e==StatusEvent::SUCCEEDED?"ok":"fail"); }
  void recordCancelledPending(const Context&, const StateID o) override { printf(" <X %d>",(int)o); } };
static void plan(const char* t){ printf("\n   plan(%s):",t); { auto pl=g->plan(); for(auto it=pl.begin(); it; ++it) printf(" %d->%d",(int)it->origin,(int)it->destination); } printf(" | act=%d prev=%d req?",(int)g->activeStateId(),(int)g->previousTransition().destination); }
#define STEP(label, expr) do{ printf("\n %-28s:", label); expr; }while(0)
static void reset(){ F.clear(); G.clear(); }
int main(){
  Log lg;
  puts("== R3 activation: S0.entryGuard redirects to 1; S1.entryGuard redirects to 2 (L=2)");
  { FSM::Instance m; g=&m; reset(); G["S0.entryGuard"]=[](GC& c){c.changeTo(1);}; G["S1.entryGuard"]=[](GC& c){c.changeTo(2);}; G["S2.entryGuard"]=[](GC& c){c.changeTo(0);};
    STEP("enter()", m.enter()); plan("after"); reset();
    puts("\n== R4 leftover after limit: next update"); STEP("update()", m.update()); plan("after"); STEP("exit()", m.exit()); }
  puts("\n== R1 plan: [0->1,0->2] S0 succeeds: both fire? + logging");
  { FSM::Instance m{&lg}; g=&m; reset(); STEP("enter()", m.enter()); m.plan().change(0,1); m.plan().change(0,2); m.plan().change(2,0); plan("before"); F["S0.update"]=[](FC& c){c.succeed();};
    STEP("update()", m.update()); plan("after"); reset();
    F["S2.update"]=[](FC& c){c.succeed();}; STEP("update()", m.update()); plan("after");
    puts("\n== R2 plan empty now, S0 succeeds again -> planSucceeded? and again next cycle?"); reset(); F["S0.update"]=[](FC& c){c.succeed();};
    STEP("update()", m.update()); plan("after"); STEP("update()", m.update()); plan("after");
    puts("\n== cyclic [0->0,0->1]: S0 succeeds"); reset(); m.plan().change(0,0); m.plan().change(0,1); F["S0.update"]=[](FC& c){c.succeed();}; STEP("update()", m.update()); plan("after"); STEP("update()", m.update()); plan("after");
    puts("\n== head status leak: R.update succeed(2) (inactive), plan [1->2], active 1"); reset(); STEP("update()", m.update()); m.plan().clear(); m.plan().change(1,2); F["R.update"]=[](FC& c){c.succeed(2);}; plan("before"); STEP("update()", m.update()); plan("after");
    puts("\n== R.postUpdate fail(1) active=1 plan[1->2] -> this cycle or next?"); reset(); F["R.postUpdate"]=[](FC& c){c.fail(1);}; STEP("update()", m.update()); plan("after"); reset(); STEP("update()", m.update()); plan("after");
    puts("\n== R6 save/load same state -> reenter; load other"); reset(); FSM::Instance::SerialBuffer b; m.save(b); STEP("load(same)", m.load(b)); FSM::Instance m2{&lg}; g=&m2; STEP("m2.load (inactive loader)", m2.load(b)); m2.immediateChangeTo(2); g=&m2; STEP("m2.load (active other)", m2.load(b)); 
    FSM::Instance m3; FSM::Instance::SerialBuffer b0; m3.save(b0); STEP("m2.load(inactive buf)", m2.load(b0)); printf(" m2 active? %d",(int)m2.isActive()); g=&m;
    puts("\n== R8 copy + destroy copy (manual: no exit)"); { FSM::Instance c{m}; printf(" copy act=%d", (int)c.activeStateId()); }
    STEP("exit()", m.exit()); STEP("enter() again", m.enter()); STEP("exit()", m.exit()); }
  puts("");
}
