#define FFSM2_ENABLE_SERIALIZATION
#include <ffsm2/machine.hpp>
#include <cstdio>
#ifndef NSTATES
#define NSTATES 255
#endif
struct Rec { int s, m; const void* self; };
struct Ctx { Rec last[64]; int n=0; void add(int s,int m,const void* p){ if(n<64) last[n++]={s,m,p}; } };
using M = ffsm2::MachineT<ffsm2::Config::ContextT<Ctx&>::ManualActivation>;
template<int I> struct St; struct Rt;
template<int... Is> struct Seq {};
template<int N, int... Is> struct Gen : Gen<N-1, N-1, Is...> {};
template<int... Is> struct Gen<0, Is...> { using type = Seq<Is...>; };
template<typename> struct Mk;
template<int... Is> struct Mk<Seq<Is...>> { using FSM = M::Root<Rt,St<Is>...>; };
using FSM = Mk<Gen<NSTATES>::type>::FSM;
struct Ev{}; struct Q{ int hits=0; };
#define ALL(ID) \
  void entryGuard(GuardControl& c){ c._().add(ID,1,this);} void enter(PlanControl& c){ c._().add(ID,2,this);} void reenter(PlanControl& c){ c._().add(ID,3,this);} \
  void preUpdate(FullControl& c){ c._().add(ID,4,this);} void update(FullControl& c){ c._().add(ID,5,this);} void postUpdate(FullControl& c){ c._().add(ID,6,this);} \
  void preReact(const Ev&,FullControl& c){ c._().add(ID,7,this);} void react(const Ev&,FullControl& c){ c._().add(ID,8,this);} void postReact(const Ev&,FullControl& c){ c._().add(ID,9,this);} \
  void query(Q& q,ConstControl&) const { ++q.hits; } void exitGuard(GuardControl& c){ c._().add(ID,10,this);} void exit(PlanControl& c){ c._().add(ID,11,this);}
template<int I> struct St : FSM::State { ALL(I) };
struct Rt : FSM::State { ALL(255) };
template<int I> struct Chk { static bool run(FSM::Instance& m, Ctx& c){
  static_assert(FSM::stateId<St<I>>()==I,"id");
  bool ok=true; c.n=0; m.immediateChangeTo(I); ok &= m.activeStateId()==I && c.n>=3 && c.last[c.n-1].s==I && c.last[c.n-1].m==2 && c.last[c.n-1].self==&m.access<St<I>>();
  c.n=0; m.update(); ok &= c.n==6 && c.last[1].s==I && c.last[3].s==I && c.last[4].s==I; c.n=0; m.react(Ev{}); ok &= c.n==6 && c.last[1].s==I; Q q; m.query(q); ok &= q.hits==2;
  return ok && Chk<I-1>::run(m,c); } };
template<> struct Chk<-1> { static bool run(FSM::Instance&, Ctx&){return true;} };
int main(){ Ctx c; FSM::Instance m{c}; m.enter(); bool ok=Chk<NSTATES-1>::run(m,c); m.exit(); printf("N=%d ok=%d\n",NSTATES,(int)ok); return !ok; }
