// THROWAWAY: exhaustive single-field and pair checks of the bit stream against a bit-vector model (C13).
#define FFSM2_ENABLE_SERIALIZATION
#include <ffsm2/machine.hpp>
#include <cstdio>
#include <cstdint>
#include <cstring>
#include <vector>
using namespace ffsm2::detail;
constexpr int CAPB=255; using Buf=StreamBufferT<CAPB>; using W=BitWriteStreamT<CAPB>; using Rd=BitReadStreamT<CAPB>;
template<int N> struct WR { static void w(W& s,uint32_t v){ s.template write<N>(static_cast<ffsm2::UBitWidth<N>>(v)); } static uint32_t r(Rd& s){ return s.template read<N>(); } };
static void wr(W& s,int n,uint32_t v){ switch(n){
#define X(N) case N: WR<N>::w(s,v); break;
X(1)X(2)X(3)X(4)X(5)X(6)X(7)X(8)X(9)X(10)X(11)X(12)X(13)X(14)X(15)X(16)X(17)X(18)X(19)X(20)X(21)X(22)X(23)X(24)X(25)X(26)X(27)X(28)X(29)X(30)X(31)X(32)
#undef X
} }
static uint32_t rd(Rd& s,int n){ switch(n){
#define X(N) case N: return WR<N>::r(s);
X(1)X(2)X(3)X(4)X(5)X(6)X(7)X(8)X(9)X(10)X(11)X(12)X(13)X(14)X(15)X(16)X(17)X(18)X(19)X(20)X(21)X(22)X(23)X(24)X(25)X(26)X(27)X(28)X(29)X(30)X(31)X(32)
#undef X
} return 0; }
static unsigned long cases=0, bad=0;
static bool modelbit(const std::vector<uint8_t>& m,int i){ return m[i]; }
static void check(const Buf& b,const std::vector<uint8_t>& m,const char* what,int c,int w,uint32_t v){ for(int i=0;i<Buf::BYTE_COUNT*8;++i){ bool got=(b.data()[i>>3]>>(i&7))&1; bool exp= i<CAPB? modelbit(m,i):false; if(got!=exp){ if(!bad++) printf("MISMATCH %s cursor=%d width=%d value=%x bit=%d got=%d exp=%d\n",what,c,w,v,i,got,exp); return; } } }
int main(){
  std::vector<uint32_t> vals; 
  for(int prefix=0; prefix<3; ++prefix) for(int c=0;c<CAPB;++c) for(int w=1; w<=32 && c+w<=CAPB; ++w){
    vals.clear(); uint32_t mx = w==32?0xFFFFFFFFu:((1u<<w)-1);
    if(w<=10) for(uint32_t v=0; v<=mx; ++v) vals.push_back(v); else { vals={0,1,mx,mx-1,0xAAAAAAAAu&mx,0x55555555u&mx}; for(int b=0;b<w;++b){ vals.push_back(1u<<b); vals.push_back(mx&~(1u<<b)); } }
    for(uint32_t v: vals){ Buf buf; W ws{buf}; std::vector<uint8_t> m(CAPB,0);
      for(int i=0;i<c;++i){ uint32_t bit = prefix==0?0: prefix==1?1:(i&1); wr(ws,1,bit); m[i]=bit; }
      if(ws.cursor()!=c){ ++bad; printf("cursor after prefix\n"); }
      wr(ws,w,v); for(int i=0;i<w;++i) m[c+i]=(v>>i)&1; ++cases;
      if(ws.cursor()!=c+w){ if(!bad++) printf("CURSOR c=%d w=%d -> %d\n",c,w,(int)ws.cursor()); }
      check(buf,m,"single",c,w,v);
      Rd rs{buf}; for(int i=0;i<c;++i) (void)rd(rs,1); uint32_t got=rd(rs,w); if(got!=v || rs.cursor()!=c+w){ if(!bad++) printf("READ c=%d w=%d v=%x got=%x\n",c,w,v,got); } } }
  printf("single-field cases=%lu bad=%lu\n",cases,bad);
  // pairs at all 8 offsets
  unsigned long pc=0; for(int off=0;off<8;++off) for(int w1=1;w1<=32;++w1) for(int w2=1;w2<=32;++w2){ uint32_t m1=w1==32?~0u:((1u<<w1)-1), m2=w2==32?~0u:((1u<<w2)-1); uint32_t a1[]={0,m1,0xA5A5A5A5u&m1,1u<<(w1-1)}, a2[]={0,m2,0x5A5A5A5Au&m2,1}; for(uint32_t v1:a1) for(uint32_t v2:a2){ Buf buf; W ws{buf}; std::vector<uint8_t> m(CAPB,0); for(int i=0;i<off;++i){ wr(ws,1,1); m[i]=1; } wr(ws,w1,v1); for(int i=0;i<w1;++i) m[off+i]=(v1>>i)&1; wr(ws,w2,v2); for(int i=0;i<w2;++i) m[off+w1+i]=(v2>>i)&1; ++pc; check(buf,m,"pair",off,w1*100+w2,v1); Rd rs{buf}; for(int i=0;i<off;++i) (void)rd(rs,1); if(rd(rs,w1)!=v1||rd(rs,w2)!=v2){ if(!bad++) printf("PAIR READ off=%d w1=%d w2=%d\n",off,w1,w2);} } }
  printf("pair cases=%lu bad=%lu\n",pc,bad);
  // bitWidth: sampled here (full 2^32 in the real check): all v < 2^22 and around every power of two
  unsigned long bw=0; auto ref=[](uint32_t v){ return v? 32-__builtin_clz(v):0; }; for(uint32_t v=0; v<(1u<<22); ++v){ ++bw; if((int)ffsm2::bitWidth(v)!=ref(v)) ++bad; } for(int k=0;k<32;++k) for(long d=-2; d<=2; ++d){ uint32_t v=(uint32_t)((1ull<<k)+d); ++bw; if((int)ffsm2::bitWidth(v)!=ref(v)) ++bad; } ++bw; if(ffsm2::bitWidth(0xFFFFFFFFu)!=32) ++bad;
  for(int n=1;n<=255;++n) if(!((uint32_t)(n-1) < (1u<<ffsm2::bitWidth(n)))) ++bad;
  printf("bitWidth cases=%lu bad=%lu\n",bw,bad); return bad!=0; }
