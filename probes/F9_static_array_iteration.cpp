#define FFSM2_ENABLE_PLANS
#include <ffsm2/machine.hpp>
#include <cstdio>
int main(){
  ffsm2::detail::StaticArrayT<int,5> a; for(int i=0;i<5;++i) a[i]=i*i;
#ifdef ITER_STATIC
  int s=0; for (auto& x : a) s+=x; printf("static iter sum=%d\n",s);
#endif
  ffsm2::detail::DynamicArrayT<int,5> d; d.emplace(3); d.emplace(4); d += 5;
  int t=0; for (auto& x : d) t = t*10+x; printf("dyn iter=%d count=%d\n",t,(int)d.count());
  const auto& cd = d; int u=0; for (auto& x : cd) u = u*10+x; printf("const dyn iter=%d\n",u);
  ffsm2::detail::StaticArrayT<ffsm2::Short,3> s3; printf("Short array default elem=%d empty=%d\n",(int)s3[0],(int)s3.empty()); s3.clear(); printf("after clear elem=%d empty=%d\n",(int)s3[0],(int)s3.empty());
}
