// fsmx_machine.hpp -- the scripted FFSM2 machine under exploration.
// One translation unit per configuration; everything is selected by -D:
//   VX_N (1..4) states, VX_HEAD (1 Root with scripted head / 0 PeerRoot), VX_MANUAL, VX_PAYLOAD (0|1|4|16|32 bytes),
//   VX_L substitution limit, VX_CAP task capacity (0 = library default), VX_CTX (0 empty|1 value|2 reference|3 pointer|4 value handed over as an rvalue),
//   VX_INJ_R / VX_INJ_S0..S3 number of injections on the root / on state i, VX_BARE (last state defines no callbacks),
//   VX_DEV_HEADER (include development/ffsm2/machine_dev.hpp instead of the shipped single header),
//   and the library's own FFSM2_ENABLE_* switches.
// Every callback of every state, injection and of the root head funnels into visit_*(): it records an
// observation of what the control and the machine report at that instant, asks the driver for a decision,
// performs it and records the action.
#pragma once
#include "vx_core.hpp"
#include <setjmp.h>
#ifdef VX_MSAN
#include <sanitizer/msan_interface.h>
#endif

#ifndef VX_N
#define VX_N 3
#endif
#ifndef VX_HEAD
#define VX_HEAD 1
#endif
#ifndef VX_MANUAL
#define VX_MANUAL 0
#endif
#ifndef VX_PAYLOAD
#define VX_PAYLOAD 0
#endif
#ifndef VX_L
#define VX_L 2
#endif
#ifndef VX_CAP
#define VX_CAP 0
#endif
#ifndef VX_CTX
#define VX_CTX 1
#endif
#ifndef VX_INJ_R
#define VX_INJ_R 0
#endif
#ifndef VX_INJ_S0
#define VX_INJ_S0 0
#endif
#ifndef VX_INJ_S1
#define VX_INJ_S1 0
#endif
#ifndef VX_INJ_S2
#define VX_INJ_S2 0
#endif
#ifndef VX_INJ_S3
#define VX_INJ_S3 0
#endif
#ifndef VX_SPARSE
#define VX_SPARSE -1      // id of a state that has injections but defines few or no callbacks itself (C15, C16)
#endif
#ifndef VX_SPARSE_SHAPE
#define VX_SPARSE_SHAPE 1 // 1: no callback of its own; 2: only enter, update and exit
#endif
#ifndef VX_TFORM
#define VX_TFORM 0        // 1: every call that has a type-parameterised overload (changeTo<T>(), succeed<T>(), plan.change<A, B>(), isActive<T>() ...) uses it; 2: plans use the half form change<A>(id)
#endif
#ifndef VX_HEAD_PLANCB
#define VX_HEAD_PLANCB 3  // which plan-outcome callbacks the root head defines: bit 0 planSucceeded, bit 1 planFailed
#endif
#ifndef VX_REENTRANT
#define VX_REENTRANT 0    // 1: every callback reaches back into its machine (as user code does through the context): a const query() and, with serialization, a save()
#endif
#ifndef VX_BARE
#define VX_BARE 0
#endif

#ifdef VX_DEV_HEADER
#include <ffsm2/machine_dev.hpp>
#else
#include <ffsm2/machine.hpp>
#endif

#ifdef FFSM2_ENABLE_PLANS
#define VX_PLANS 1
#else
#define VX_PLANS 0
#endif
#ifdef FFSM2_ENABLE_SERIALIZATION
#define VX_SER 1
#else
#define VX_SER 0
#endif
#ifdef FFSM2_ENABLE_TRANSITION_HISTORY
#define VX_HIST 1
#else
#define VX_HIST 0
#endif
#ifdef FFSM2_ENABLE_VERBOSE_DEBUG_LOG
#define VX_LOG 2
#elif defined(FFSM2_ENABLE_LOG_INTERFACE)
#define VX_LOG 1
#else
#define VX_LOG 0
#endif

namespace vx {

static constexpr int N = VX_N;
static constexpr uint8_t ROOT = 255;
static constexpr uint8_t NONE8 = 255;

// --------------------------------------------------------------------------- payload / context / events
#if VX_PAYLOAD == 0
using Payload = void;
static constexpr int PSIZE = 0, PALIGN = 1;
#else
#if VX_PAYLOAD == 1
struct Payload { uint8_t b[1]; };
#elif VX_PAYLOAD == 4
struct alignas(4) Payload { uint8_t b[4]; };
#elif VX_PAYLOAD == 16
struct alignas(8) Payload { uint8_t b[16]; };
#elif VX_PAYLOAD == 32
struct alignas(16) Payload { uint8_t b[32]; };
#elif VX_PAYLOAD == 3
struct Payload { uint8_t b[3]; };                  // odd size, no alignment requirement
#elif VX_PAYLOAD == 7
struct Payload { uint8_t b[7]; };
#elif VX_PAYLOAD == 8
struct alignas(8) Payload { uint8_t b[8]; };       // size == alignment == 8
#elif VX_PAYLOAD == 24
struct alignas(8) Payload { uint8_t b[24]; };
#elif VX_PAYLOAD == 300
struct Payload { uint8_t b[300]; };                // larger than any 8-bit byte count
#else
#error unsupported VX_PAYLOAD
#endif
static constexpr int PSIZE = sizeof(Payload), PALIGN = alignof(Payload);
#endif

// payload tags: 0 = no payload, 1 = value A, 2 = value B, 3 = all-zero (default constructed), 4 = all-ones, 0xEE = none of these (corrupt)
inline uint8_t ptag_byte(uint8_t tag, int i) { return static_cast<uint8_t>((tag == 1 ? 0xA5 : 0x3C) ^ static_cast<uint8_t>(i * 29 + 7)); }
#if VX_PAYLOAD
inline Payload mk_payload(uint8_t tag) { Payload p; for (int i = 0; i < PSIZE; ++i) p.b[i] = tag == 3 ? 0x00 : tag == 4 ? 0xFF : ptag_byte(tag, i); return p; }   // tags 3, 4: the edge values all-zero / all-ones
inline uint8_t rd_payload(const uint8_t* b) {
	bool a = true, bb = true, z = true, f = true;
	for (int i = 0; i < PSIZE; ++i) { a &= b[i] == ptag_byte(1, i); bb &= b[i] == ptag_byte(2, i); z &= b[i] == 0; f &= b[i] == 0xFF; }
	return a ? 1 : bb ? 2 : z ? 3 : f ? 4 : 0xEE;
}
#endif

struct Ctx { int v; };
static Ctx g_ctx{7};
#if VX_CTX == 0
using ContextArg = ffsm2::EmptyContext;
#elif VX_CTX == 1 || VX_CTX == 4
using ContextArg = Ctx;
#elif VX_CTX == 2
using ContextArg = Ctx&;
#else
using ContextArg = Ctx*;
#endif

struct EvA { int v; };
struct EvB { long w; };   // a second event type: handled by the head and by the odd-numbered states only (machines without injections)
struct QA { int v; };
struct QB { int v; };      // a query handed over as a const object: handlers take const QB&

// --------------------------------------------------------------------------- trace
enum EvKind : uint8_t {
	EV_CB = 1,
	EV_CHANGE, EV_CANCEL, EV_SUCCEED, EV_FAIL, EV_PLAN_APPEND, EV_PLAN_CLEAR, EV_PLAN_REMOVE,
	EV_LOG_METHOD, EV_LOG_TRANS, EV_LOG_TASK, EV_LOG_CANCEL, EV_LOG_PLAN,
	EV_LOG_ATTACH,   // a callback attached (a = 1) or detached (a = 0) the logger
	EV_MARK // section marker inside a compound op (a = marker id)
};
enum Meth : uint8_t { M_NONE = 0, M_EG = 1, M_ENTER, M_REENTER, M_PRE_UPDATE, M_UPDATE, M_POST_UPDATE, M_PRE_REACT, M_REACT, M_QUERY, M_POST_REACT, M_XG, M_EXIT, M_PLAN_OK, M_PLAN_FAIL };
static const char* const METH_NAME[] = {"none", "entryGuard", "enter", "reenter", "preUpdate", "update", "postUpdate", "preReact", "react", "query", "postReact", "exitGuard", "exit", "planSucceeded", "planFailed"};
static_assert(static_cast<int>(ffsm2::Method::EXIT) == M_EXIT && static_cast<int>(ffsm2::Method::PLAN_FAILED) == M_PLAN_FAIL && static_cast<int>(ffsm2::Method::QUERY) == M_QUERY, "Method numbering");

struct TxS { uint8_t o, d, set, tag; };   // origin, destination, payload present, payload tag
inline bool operator==(const TxS& a, const TxS& b) { return a.o == b.o && a.d == b.d && a.set == b.set && a.tag == b.tag; }
inline bool operator!=(const TxS& a, const TxS& b) { return !(a == b); }
static constexpr TxS TX_NONE{NONE8, NONE8, 0, 0};
inline bool tx_empty(const TxS& t) { return t.d == NONE8; }

static constexpr int MAXPLAN = 8;
enum ObsFlag : uint8_t { OF_CTX = 1, OF_EVENT = 2, OF_THIS = 4, OF_ALIGN = 8, OF_PEND = 16, OF_CUR = 32, OF_PREV = 64, OF_PLAN = 128 };

struct Ev {
	uint8_t kind, sid, meth, inj;
	uint8_t a, b, c, r;           // action arguments / results (see visit code)
	// observation (EV_CB only)
	uint8_t ctl_sid, ctl_mask, m_active, m_mask;
	uint8_t flags, planlen, planbool, ctl;  // ctl: control flavour 1 guard 2 plan 3 full 4 const
	TxS req, pend, cur, prev;
	TxS plan[MAXPLAN];            // o,d,set,tag per task
	TxS pfirst, plast;
};

// --------------------------------------------------------------------------- decisions
enum ActK : uint8_t { A_NONE, A_CANCEL, A_CHANGE, A_CANCEL_CHANGE, A_CHANGEW, A_CANCEL_CHANGEW, A_SUCCEED, A_FAIL, A_SUCCEED_ID, A_FAIL_ID, A_PLAN_CHANGE, A_PLAN_CHANGEW, A_PLAN_CLEAR, A_PLAN_REMOVE,
	// composite decisions: several actions in one callback invocation
	A_CHANGE_CANCEL, A_CHANGE2, A_FAIL_SUCCEED, A_SUCCEED_FAIL, A_SUCCEED_CHANGE, A_CHANGE_SUCCEED, A_CHANGEW_CHANGE, A_CHANGE_CHANGEW, A_CANCEL2, A_LOG_ON, A_LOG_OFF, A_CHANGEW_ALIAS };   // A_CHANGEW_ALIAS: changeWith(dest, *request().payload()): the argument lives in the request slot itself
struct Act { uint8_t k, a, b, pv; };

enum MenuFlag : unsigned {
	MF_PHASE_REQ = 1, MF_GUARD_CANCEL = 2, MF_GUARD_REQ = 4, MF_PAYLOAD = 8, MF_PAYLOAD2 = 16,
	MF_REPORT = 32, MF_REPORT_OTHER = 64, MF_PLAN_EDIT = 128, MF_LIFE_EDIT = 256, MF_GUARD_REPORT = 512, MF_INJ_DECIDE = 1024, MF_COMPOSITE = 2048, MF_LOG_TOGGLE = 4096   /* phase callbacks attach / detach the logger */
};

enum DrvMode : uint8_t { DM_DFS, DM_STRATEGY, DM_HOSTILE, DM_QUIET };

static constexpr int MAXEV = 2600, MAXCH = 96, MAXDEV = 6;

struct Driver {
	// choice handling
	uint8_t mode = DM_DFS;
	int ndev = 0; uint16_t dev_pos[MAXDEV]; uint16_t dev_alt[MAXDEV];
	int nch = 0; uint16_t menu[MAXCH]; uint16_t taken[MAXCH];
	// trace
	int nev = 0; Ev tr[MAXEV];
	bool overflow = false, diverged = false;
	int budget = MAXEV - 8;
	// strategy table: decision index per guard site (sid 0..N-1 entry, N..2N-1 exit, 2N root entry)
	uint8_t strat[2 * 8 + 1];
	unsigned mf = 0;
	void* cur = nullptr;        // instance currently driven (for machine-side observations)
	bool in_reentrant = false; int rq_n = 0; uint8_t rq_sid[16], rq_inj[16]; const void* rq_event = nullptr; bool rq_identity = true;   // re-entrant query bookkeeping
	const void* event = nullptr; // address of the event object handed to react()/query()
	unsigned long guard_cbs = 0;

	void begin(int ndev_, const uint16_t* pos, const uint16_t* alt) { ndev = ndev_; for (int i = 0; i < ndev_; ++i) { dev_pos[i] = pos[i]; dev_alt[i] = alt[i]; } nch = 0; nev = 0; overflow = diverged = false; guard_cbs = 0; beyond = 0; }
	// a call that keeps delivering callbacks beyond the budget does not terminate on its own: escape back to the explorer
	unsigned long beyond = 0; jmp_buf escape; bool escape_armed = false;
	Ev& push() { if (nev >= budget) { overflow = true; if (++beyond > 8ul * MAXEV && escape_armed) longjmp(escape, 1); return tr[MAXEV - 1]; } Ev& e = tr[nev++]; memset(&e, 0, sizeof e); return e; }
	unsigned choose(unsigned m) {
		if (m <= 1 || mode == DM_QUIET) return 0;
		if (nch >= MAXCH) { overflow = true; return 0; }
		int i = nch++; unsigned c = 0;
		for (int j = 0; j < ndev; ++j) if (dev_pos[j] == i) c = dev_alt[j];
		if (c >= m) { diverged = true; c = 0; }
		menu[i] = static_cast<uint16_t>(m); taken[i] = static_cast<uint16_t>(c);
		return c;
	}
};
static Driver G;

static Vec<Act> menuGuard[2], menuFull[2], menuLife;   // [isRoot]
// state ids the alphabet and the menus use (all of them by default; a subset keeps machines with many states explorable)
static int g_ids[8] = {0, 1, 2, 3, 4, 5, 6, 7}; static int g_nids = VX_N;

// --------------------------------------------------------------------------- machine types
using Cfg0 = ffsm2::Config::ContextT<ContextArg>::SubstitutionLimitN<VX_L>;
#if VX_PLANS && VX_CAP
using Cfg1 = Cfg0::TaskCapacityN<VX_CAP>;
#else
using Cfg1 = Cfg0;
#endif
#if VX_PAYLOAD
using Cfg2 = Cfg1::PayloadT<Payload>;
#else
using Cfg2 = Cfg1;
#endif
#if VX_MANUAL
using Cfg = Cfg2::ManualActivation;
#else
using Cfg = Cfg2;
#endif
using M = ffsm2::MachineT<Cfg>;

template <int I> struct St;
struct Rt;
#if VX_BARE
struct Bare;
#define VX_LAST Bare
#else
#define VX_LAST St<VX_N - 1>
#endif

#if VX_HEAD
#define VX_ROOTKIND(...) M::Root<Rt, __VA_ARGS__>
#else
#define VX_ROOTKIND(...) M::PeerRoot<__VA_ARGS__>
#endif
#if VX_N == 1
using FSM = VX_ROOTKIND(VX_LAST);
#elif VX_N == 2
using FSM = VX_ROOTKIND(St<0>, VX_LAST);
#elif VX_N == 3
using FSM = VX_ROOTKIND(St<0>, St<1>, VX_LAST);
#elif VX_N == 4
using FSM = VX_ROOTKIND(St<0>, St<1>, St<2>, VX_LAST);
#elif VX_N == 5
using FSM = VX_ROOTKIND(St<0>, St<1>, St<2>, St<3>, VX_LAST);
#elif VX_N == 6
using FSM = VX_ROOTKIND(St<0>, St<1>, St<2>, St<3>, St<4>, VX_LAST);
#elif VX_N == 7
using FSM = VX_ROOTKIND(St<0>, St<1>, St<2>, St<3>, St<4>, St<5>, VX_LAST);
#elif VX_N == 8
using FSM = VX_ROOTKIND(St<0>, St<1>, St<2>, St<3>, St<4>, St<5>, St<6>, VX_LAST);
#else
#error VX_N out of range (1..8)
#endif
using Inst = FSM::Instance;
using Transition = M::Transition;

inline Inst* curInst() { return static_cast<Inst*>(G.cur); }

// --------------------------------------------------------------------------- forward declarations (definitions follow the state types: they need a complete Instance)
template <typename C> void visit_guard(C& c, uint8_t sid, uint8_t inj, uint8_t meth, bool thisok);
template <typename C> void visit_full(C& c, uint8_t sid, uint8_t inj, uint8_t meth, bool thisok, const void* ev);
template <typename C> void visit_life(C& c, uint8_t sid, uint8_t inj, uint8_t meth, bool thisok);
template <typename C> void visit_const(C& c, uint8_t sid, uint8_t inj, uint8_t meth, bool thisok, const void* ev);
template <typename SELF, typename BASE> bool thisok(const BASE* self);

// --------------------------------------------------------------------------- scripted states
// SELF is the most-derived state type the callbacks belong to (St<I> or Rt), used for the access<>() identity check.
#define VX_THISOK(SELF, BASE) (thisok<SELF, BASE>(this))

#define VX_CALLBACKS_Q(SELF, BASE, SID, INJ, V, NX) \
	V void entryGuard(GuardControl& c) NX { visit_guard(c, SID, INJ, M_EG, VX_THISOK(SELF, BASE)); } \
	V void enter(PlanControl& c) NX { visit_life(c, SID, INJ, M_ENTER, VX_THISOK(SELF, BASE)); } \
	V void reenter(PlanControl& c) NX { visit_life(c, SID, INJ, M_REENTER, VX_THISOK(SELF, BASE)); } \
	V void preUpdate(FullControl& c) NX { visit_full(c, SID, INJ, M_PRE_UPDATE, VX_THISOK(SELF, BASE), nullptr); } \
	V void update(FullControl& c) NX { visit_full(c, SID, INJ, M_UPDATE, VX_THISOK(SELF, BASE), nullptr); } \
	V void postUpdate(FullControl& c) NX { visit_full(c, SID, INJ, M_POST_UPDATE, VX_THISOK(SELF, BASE), nullptr); } \
	V void preReact(const EvA& ev, FullControl& c) NX { visit_full(c, SID, INJ, M_PRE_REACT, VX_THISOK(SELF, BASE), &ev); } \
	V void react(const EvA& ev, FullControl& c) NX { visit_full(c, SID, INJ, M_REACT, VX_THISOK(SELF, BASE), &ev); } \
	V void postReact(const EvA& ev, FullControl& c) NX { visit_full(c, SID, INJ, M_POST_REACT, VX_THISOK(SELF, BASE), &ev); } \
	V void query(QA& ev, ConstControl& c) const NX { visit_const(c, SID, INJ, M_QUERY, VX_THISOK(SELF, BASE), &ev); } \
	V void query(const QB& ev, ConstControl& c) const NX { visit_const(c, SID, INJ, M_QUERY, VX_THISOK(SELF, BASE), &ev); } \
	V void exitGuard(GuardControl& c) NX { visit_guard(c, SID, INJ, M_XG, VX_THISOK(SELF, BASE)); } \
	V void exit(PlanControl& c) NX { visit_life(c, SID, INJ, M_EXIT, VX_THISOK(SELF, BASE)); }

// VX_INJ_VIRTUAL: the injections declare their callbacks virtual (a polymorphic mix-in); the states' callbacks of the same name then
// override them and, like the library's own stubs, must be noexcept
#ifndef VX_INJ_VIRTUAL
#define VX_INJ_VIRTUAL 0
#endif
#if VX_INJ_VIRTUAL
#define VX_CALLBACKS(SELF, BASE, SID, INJ) VX_CALLBACKS_Q(SELF, BASE, SID, INJ, , noexcept)
#define VX_CALLBACKS_INJ(SELF, BASE, SID, INJ) VX_CALLBACKS_Q(SELF, BASE, SID, INJ, virtual, noexcept)
#else
#define VX_CALLBACKS(SELF, BASE, SID, INJ) VX_CALLBACKS_Q(SELF, BASE, SID, INJ, , )
#define VX_CALLBACKS_INJ(SELF, BASE, SID, INJ) VX_CALLBACKS_Q(SELF, BASE, SID, INJ, , )
#endif

#if VX_PLANS
#if VX_HEAD_PLANCB == 3
#define VX_PLAN_CALLBACKS(SELF, BASE, SID, INJ) \
	void planSucceeded(FullControl& c) { visit_full(c, SID, INJ, M_PLAN_OK, VX_THISOK(SELF, BASE), nullptr); } \
	void planFailed(FullControl& c) { visit_full(c, SID, INJ, M_PLAN_FAIL, VX_THISOK(SELF, BASE), nullptr); }
#elif VX_HEAD_PLANCB == 1
#define VX_PLAN_CALLBACKS(SELF, BASE, SID, INJ) \
	void planSucceeded(FullControl& c) { visit_full(c, SID, INJ, M_PLAN_OK, VX_THISOK(SELF, BASE), nullptr); }
#elif VX_HEAD_PLANCB == 2
#define VX_PLAN_CALLBACKS(SELF, BASE, SID, INJ) \
	void planFailed(FullControl& c) { visit_full(c, SID, INJ, M_PLAN_FAIL, VX_THISOK(SELF, BASE), nullptr); }
#else
#define VX_PLAN_CALLBACKS(SELF, BASE, SID, INJ)
#endif
#else
#define VX_PLAN_CALLBACKS(SELF, BASE, SID, INJ)
#endif

// the usual idiom of the library's users: keep the base's event-templated handlers visible next to the own, event-specific ones
// (with injections the names would be ambiguous, so only machines without any)
#if VX_INJ_R == 0 && VX_INJ_S0 == 0 && VX_INJ_S1 == 0 && VX_INJ_S2 == 0 && VX_INJ_S3 == 0
#define VX_USING_BASE_HANDLERS using Base::preReact; using Base::react; using Base::postReact; using Base::query;
#define VX_EVB 1
#else
#define VX_USING_BASE_HANDLERS
#define VX_EVB 0
#endif
template <int I, int J> struct Inj : FSM::State { VX_CALLBACKS_INJ(St<I>, Inj, I, J) };
template <int J> struct RInj : FSM::State { VX_CALLBACKS_INJ(Rt, RInj, ROOT, J) };

template <int I, int K> struct StBase;
template <int I> struct StBase<I, 0> { using Type = FSM::State; };
template <int I> struct StBase<I, 1> { using Type = FSM::StateT<Inj<I, 1>>; };
template <int I> struct StBase<I, 2> { using Type = FSM::StateT<Inj<I, 1>, Inj<I, 2>>; };
template <int I> struct StBase<I, 3> { using Type = FSM::StateT<Inj<I, 1>, Inj<I, 2>, Inj<I, 3>>; };
template <int I> struct StBase<I, 4> { using Type = FSM::StateT<Inj<I, 1>, Inj<I, 2>, Inj<I, 3>, Inj<I, 4>>; };
template <int I> struct StBase<I, 5> { using Type = FSM::StateT<Inj<I, 1>, Inj<I, 2>, Inj<I, 3>, Inj<I, 4>, Inj<I, 5>>; };
template <int K> struct RtBase;
template <> struct RtBase<0> { using Type = FSM::State; };
template <> struct RtBase<1> { using Type = FSM::StateT<RInj<1>>; };
template <> struct RtBase<2> { using Type = FSM::StateT<RInj<1>, RInj<2>>; };
template <> struct RtBase<3> { using Type = FSM::StateT<RInj<1>, RInj<2>, RInj<3>>; };
template <> struct RtBase<4> { using Type = FSM::StateT<RInj<1>, RInj<2>, RInj<3>, RInj<4>>; };

static constexpr int INJ_OF[8] = {VX_INJ_S0, VX_INJ_S1, VX_INJ_S2, VX_INJ_S3, 0, 0, 0, 0};
static constexpr int INJ_ROOT = VX_INJ_R;

#if VX_EVB
// handlers for the second event type live one level below the state class (odd-numbered states only); the state re-exports them next
// to its own EvA handlers and the library's catch-all templates
template <int I, bool ODD> struct EvBPart : StBase<I, INJ_OF[I]>::Type { using Below = typename StBase<I, INJ_OF[I]>::Type; using Below::preReact; using Below::react; using Below::postReact; using Below::query; };
template <int I> struct EvBPart<I, true> : StBase<I, INJ_OF[I]>::Type {
	using Below = typename StBase<I, INJ_OF[I]>::Type; using FullControl = typename Below::FullControl;
	using Below::preReact; using Below::react; using Below::postReact; using Below::query;
	void preReact(const EvB& ev, FullControl& c) { visit_full(c, I, 0, M_PRE_REACT, VX_THISOK(St<I>, EvBPart), &ev); }
	void react(const EvB& ev, FullControl& c) { visit_full(c, I, 0, M_REACT, VX_THISOK(St<I>, EvBPart), &ev); }
	void postReact(const EvB& ev, FullControl& c) { visit_full(c, I, 0, M_POST_REACT, VX_THISOK(St<I>, EvBPart), &ev); }
};
template <int I> struct StParent { using Type = EvBPart<I, (I % 2) == 1>; };
#else
template <int I> struct StParent { using Type = typename StBase<I, INJ_OF[I]>::Type; };
#endif
inline bool own_defined_evb(int sid) { return VX_EVB && (sid == 255 || (sid % 2) == 1); }

template <int I> struct St : StParent<I>::Type {
	using Base = typename StParent<I>::Type;
	using GuardControl = typename Base::GuardControl; using PlanControl = typename Base::PlanControl;
	using FullControl = typename Base::FullControl; using ConstControl = typename Base::ConstControl;
	VX_USING_BASE_HANDLERS
	VX_CALLBACKS(St<I>, St<I>, I, 0)
	uint8_t vx_entered = 0;   // user data kept in the state object: set by enter(), reset by exit() (observed at every callback; a copy must carry it)
};
#if VX_INJ_VIRTUAL
#define VX_SPARSE_NX noexcept
#else
#define VX_SPARSE_NX
#endif
#if VX_SPARSE >= 0
template <> struct St<VX_SPARSE> : StBase<VX_SPARSE, INJ_OF[VX_SPARSE]>::Type {
	using Base = typename StBase<VX_SPARSE, INJ_OF[VX_SPARSE]>::Type;
	using GuardControl = typename Base::GuardControl; using PlanControl = typename Base::PlanControl;
	using FullControl = typename Base::FullControl; using ConstControl = typename Base::ConstControl;
#if VX_SPARSE_SHAPE == 2
	void enter(PlanControl& c) VX_SPARSE_NX { visit_life(c, VX_SPARSE, 0, M_ENTER, VX_THISOK(St<VX_SPARSE>, St<VX_SPARSE>)); }
	void update(FullControl& c) VX_SPARSE_NX { visit_full(c, VX_SPARSE, 0, M_UPDATE, VX_THISOK(St<VX_SPARSE>, St<VX_SPARSE>), nullptr); }
	void exit(PlanControl& c) VX_SPARSE_NX { visit_life(c, VX_SPARSE, 0, M_EXIT, VX_THISOK(St<VX_SPARSE>, St<VX_SPARSE>)); }
#endif
	uint8_t vx_entered = 0;
};
#endif
// does the root head define the plan-outcome callback?
inline bool head_defines_outcome(int meth) { return VX_HEAD && ((meth == M_PLAN_OK && (VX_HEAD_PLANCB & 1)) || (meth == M_PLAN_FAIL && (VX_HEAD_PLANCB & 2))); }
// does the state class itself (not one of its injections) define this callback?
inline bool own_defined(int sid, int meth) { return sid != VX_SPARSE || (VX_SPARSE_SHAPE == 2 && (meth == M_ENTER || meth == M_UPDATE || meth == M_EXIT)); }

#if VX_HEAD
struct Rt : RtBase<INJ_ROOT>::Type {
	using Base = RtBase<INJ_ROOT>::Type;
	using GuardControl = Base::GuardControl; using PlanControl = Base::PlanControl;
	using FullControl = Base::FullControl; using ConstControl = Base::ConstControl;
	VX_USING_BASE_HANDLERS
	VX_CALLBACKS(Rt, Rt, ROOT, 0)
	VX_PLAN_CALLBACKS(Rt, Rt, ROOT, 0)
#if VX_EVB
	void preReact(const EvB& ev, FullControl& c) { visit_full(c, ROOT, 0, M_PRE_REACT, VX_THISOK(Rt, Rt), &ev); }
	void react(const EvB& ev, FullControl& c) { visit_full(c, ROOT, 0, M_REACT, VX_THISOK(Rt, Rt), &ev); }
	void postReact(const EvB& ev, FullControl& c) { visit_full(c, ROOT, 0, M_POST_REACT, VX_THISOK(Rt, Rt), &ev); }
#endif
	uint8_t vx_entered = 0;
};
#endif
#if VX_BARE
struct Bare : FSM::State {};
#endif

// --------------------------------------------------------------------------- reading transitions / plans
template <typename T>
inline TxS rd_tx(const T& t, bool keepStalePayload = false) {
	TxS s{t.origin, t.destination, 0, 0};
#if VX_PAYLOAD
	const Payload* p = t.payload();
	if (p) { s.set = 1; s.tag = rd_payload(reinterpret_cast<const uint8_t*>(p)); if (reinterpret_cast<uintptr_t>(p) % PALIGN) s.set = 3; /* present but misaligned */ }
#endif
	if (t.destination == ffsm2::INVALID_STATE_ID) { s.o = NONE8; if (!keepStalePayload) { s.set = 0; s.tag = 0; } }   // an empty transition is "none" whatever its stale fields hold
	// (keepStalePayload: the transition a callback is handed as "current" is built afresh for every call, so even when it is empty
	// its payload() must be null; a non-null one is the payload of some other request)
	return s;
}
template <typename T>
inline TxS rd_task(const T& t) {
	TxS s{t.origin, t.destination, 0, 0};
#if VX_PAYLOAD
	const Payload* p = t.payload();
	if (p) { s.set = 1; s.tag = rd_payload(reinterpret_cast<const uint8_t*>(p)); if (reinterpret_cast<uintptr_t>(p) % PALIGN) s.set = 3; }
#endif
	return s;
}

template <typename C> inline const void* ctx_addr_of(C& c) {
#if VX_CTX == 3
	return static_cast<const void*>(c.context());
#else
	return static_cast<const void*>(&c.context());
#endif
}

// control flavour tags
struct TagGuard {}; struct TagPlan {}; struct TagFull {}; struct TagConst {};

// --------------------------------------------------------------------------- type-parameterised API forms (VX_TFORM)
template <int K> struct StateAt { using type = St<K>; };
#if VX_BARE
template <> struct StateAt<VX_N - 1> { using type = Bare; };
#endif
// calls Fn::go<T>(args...) with T = the id-th declared state
template <typename Fn, typename... A> inline void tdispatch(int id, A&... a) {
	switch (id) {
	case 0: Fn::template go<typename StateAt<0>::type>(a...); break;
#if VX_N > 1
	case 1: Fn::template go<typename StateAt<1>::type>(a...); break;
#endif
#if VX_N > 2
	case 2: Fn::template go<typename StateAt<2>::type>(a...); break;
#endif
#if VX_N > 3
	case 3: Fn::template go<typename StateAt<3>::type>(a...); break;
#endif
#if VX_N > 4
	case 4: Fn::template go<typename StateAt<4>::type>(a...); break;
#endif
#if VX_N > 5
	case 5: Fn::template go<typename StateAt<5>::type>(a...); break;
#endif
#if VX_N > 6
	case 6: Fn::template go<typename StateAt<6>::type>(a...); break;
#endif
#if VX_N > 7
	case 7: Fn::template go<typename StateAt<7>::type>(a...); break;
#endif
	default: die("tdispatch: id %d out of range", id);
	}
}
struct TF_Change { template <typename T, typename C> static void go(C& c) { c.template changeTo<T>(); } };
struct TF_Imm { template <typename T, typename C> static void go(C& c) { c.template immediateChangeTo<T>(); } };
struct TF_IsActive { template <typename T, typename C> static void go(C& c, bool& out) { out = c.template isActive<T>(); } };
struct TF_StateId { template <typename T, typename C> static void go(C& c, int& out) { out = c.template stateId<T>(); } };
#if VX_PAYLOAD
struct TF_ChangeW { template <typename T, typename C> static void go(C& c, const Payload& p) { c.template changeWith<T>(p); } };
struct TF_ImmW { template <typename T, typename C> static void go(C& c, const Payload& p) { c.template immediateChangeWith<T>(p); } };
#endif
#if VX_PLANS
struct TF_Succeed { template <typename T, typename C> static void go(C& c) { c.template succeed<T>(); } };
struct TF_Fail { template <typename T, typename C> static void go(C& c) { c.template fail<T>(); } };
template <typename TO> struct TF_PlanChange2 { template <typename TD, typename P> static void go(P& p, bool& ok) { ok = p.template change<TO, TD>(); } };
struct TF_PlanChange1 { template <typename TO, typename P> static void go(P& p, int& d, bool& ok) {
#if VX_TFORM == 2
	ok = p.template change<TO>(static_cast<ffsm2::StateID>(d));
#else
	tdispatch<TF_PlanChange2<TO>>(d, p, ok);
#endif
} };
#if VX_PAYLOAD
template <typename TO> struct TF_PlanChangeW2 { template <typename TD, typename P> static void go(P& p, const Payload& pl, bool& ok) { ok = p.template changeWith<TO, TD>(pl); } };
struct TF_PlanChangeW1 { template <typename TO, typename P> static void go(P& p, int& d, const Payload& pl, bool& ok) {
#if VX_TFORM == 2
	ok = p.template changeWith<TO>(static_cast<ffsm2::StateID>(d), pl);
#else
	tdispatch<TF_PlanChangeW2<TO>>(d, p, pl, ok);
#endif
} };
#endif
#endif
template <typename C> inline bool is_active_of(C& c, int k) {
#if VX_TFORM
	bool out = false; tdispatch<TF_IsActive>(k, c, out); return out;
#else
	return c.isActive(static_cast<ffsm2::StateID>(k));
#endif
}

// the datum the harness keeps in the state objects themselves (null for the state type without members)
template <typename T> inline auto mark_ptr_of(T& st, int) -> decltype(&st.vx_entered) { return &st.vx_entered; }
template <typename T> inline uint8_t* mark_ptr_of(T&, long) { return nullptr; }
struct TF_Mark { template <typename T> static void go(Inst& m, uint8_t*& out) { out = mark_ptr_of(m.template access<T>(), 0); } };
inline uint8_t* state_mark(Inst& m, uint8_t sid) {
	uint8_t* out = nullptr;
#if VX_HEAD
	if (sid == ROOT) return mark_ptr_of(m.template access<Rt>(), 0);
#endif
	if (sid < N) tdispatch<TF_Mark>(sid, m, out);
	return out;
}

// MSan builds: a task slot that is not part of the plan holds no live task. The next emplace() starts a new object there, so whatever
// its payload members held before is indeterminate from then on; poisoning them lets MemorySanitizer see a constructor that
// leaves one of them unwritten (the bytes are otherwise "initialised" by the previous occupant).
#if VX_PLANS
inline unsigned occupied_tasks(const Inst& m) {
	const auto& pd = m._core.planData; unsigned occ = 0; int n = 0;
	for (ffsm2::Long i = pd.tasksBounds.first; i != ffsm2::INVALID_LONG && i < Inst::TASK_CAPACITY && n <= static_cast<int>(Inst::TASK_CAPACITY); i = pd.taskLinks._items[i].next, ++n) occ |= 1u << i;
	return occ;
}
#endif
#if defined(VX_MSAN) && VX_PLANS && VX_PAYLOAD
inline void poison_vacant(Inst& m) {
	auto& pd = m._core.planData; const unsigned occ = occupied_tasks(m);
	for (int i = 0; i < static_cast<int>(Inst::TASK_CAPACITY); ++i) if (!((occ >> i) & 1u)) { __msan_poison(&pd.tasks._items[i].storage, sizeof pd.tasks._items[i].storage); __msan_poison(&pd.tasks._items[i].payloadSet, sizeof pd.tasks._items[i].payloadSet); }
}
#else
inline void poison_vacant(Inst&) {}
#endif

#if VX_REENTRANT
uint8_t reentrant_probe(Inst& m);   // defined in fsmx_ops.hpp (needs the canonical buffers); returns ctl bits 0x20 (query misdelivered) / 0x10 (save not canonical)
#endif
template <typename C>
inline void obs_common(Ev& e, C& c) {
	Inst* m = curInst();
	poison_vacant(*m);
#if VX_REENTRANT
	if (!G.in_reentrant) e.ctl |= reentrant_probe(*m);
#endif
	if (uint8_t* mk = state_mark(*m, e.sid)) { if (*mk) e.ctl |= 0x40; if (!e.inj && e.meth == M_ENTER) *mk = 1; if (!e.inj && e.meth == M_EXIT) *mk = 0; }
	e.ctl_sid = c.stateId();
	uint8_t cm = 0, mm = 0;
	for (int k = 0; k < N; ++k) { if (is_active_of(c, k)) cm |= static_cast<uint8_t>(1u << k); if (is_active_of(*m, k)) mm |= static_cast<uint8_t>(1u << k); }
	e.ctl_mask = cm; e.m_mask = mm; e.m_active = m->activeStateId();
	if (ctx_addr_of(c) == ctx_addr_of(*m) && static_cast<const void*>(&c._()) == static_cast<const void*>(&c.context())) e.flags |= OF_CTX;
	e.req = rd_tx(c.request());
#if VX_HIST
	e.prev = rd_tx(c.previousTransitions()); e.flags |= OF_PREV;
#endif
#if VX_PLANS
	{
		auto p = c.plan(); int n = 0;
		e.planbool = static_cast<bool>(p) ? 1 : 0;
		for (auto it = p.begin(); it; ++it) { if (n < MAXPLAN) e.plan[n] = rd_task(*it); ++n; }
		e.planlen = static_cast<uint8_t>(n); e.flags |= OF_PLAN;
		// first()/last(): through the read-only plan every control offers; through the mutable plan only when the
		// probe of DESIGN.md finding F11 (PlanT::first()/last() declared but not defined) links
		const C& cc = c; auto cp = cc.plan();
		if (static_cast<bool>(cp) != static_cast<bool>(p)) e.planbool = 2;
		if (e.planbool == 1) { e.pfirst = rd_task(cp.first()); e.plast = rd_task(cp.last());
#ifdef VX_PLAN_FIRSTLAST
			if (!(rd_task(p.first()) == e.pfirst) || !(rd_task(p.last()) == e.plast)) e.planbool = 3;
			{ const auto& constPlan = p; if (!(rd_task(constPlan.first()) == e.pfirst) || !(rd_task(constPlan.last()) == e.plast)) e.planbool = 3; }   // the const overloads of the mutable plan
#endif
		}
	}
#endif
}

template <typename C> inline void obs_current(Ev& e, C& c) { e.cur = rd_tx(c.currentTransition(), true); e.flags |= OF_CUR; }
template <typename C> inline void obs_pending(Ev& e, C& c) { e.pend = rd_tx(c.pendingTransition()); e.flags |= OF_PEND; }

// --------------------------------------------------------------------------- performing decisions
template <typename C>
inline void do_change(C& c, uint8_t sid, uint8_t inj, uint8_t meth, uint8_t dest, uint8_t pv) {
	Inst* m = curInst();
	const uint8_t before = m->activeStateId();
#if VX_PAYLOAD
	if (pv) { Payload p = mk_payload(pv);
#if VX_TFORM
		{ const Payload& cp = p; tdispatch<TF_ChangeW>(dest, c, cp); }
#else
		c.changeWith(static_cast<ffsm2::StateID>(dest), p);
#endif
		memset(&p, 0xDD, sizeof p); }
	else
#endif
	{
#if VX_TFORM
		tdispatch<TF_Change>(dest, c);
#else
		c.changeTo(static_cast<ffsm2::StateID>(dest));
#endif
	}
	Ev& e = G.push(); e.kind = EV_CHANGE; e.sid = sid; e.inj = inj; e.meth = meth; e.a = dest; e.b = pv;
	e.req = rd_tx(c.request());
	e.c = e.req.o;                                  // origin recorded by the library
	e.r = (m->activeStateId() == before) ? 1 : 0;   // activity unchanged at the moment of the request
}
template <typename C> inline void do_cancel(C& c, uint8_t sid, uint8_t inj, uint8_t meth) { c.cancelPendingTransition(); Ev& e = G.push(); e.kind = EV_CANCEL; e.sid = sid; e.inj = inj; e.meth = meth; }

#if VX_PLANS
template <typename C> inline void do_report(C& c, uint8_t sid, uint8_t inj, uint8_t meth, bool ok, bool withId, uint8_t id) {
#if VX_TFORM
	if (withId) { if (ok) tdispatch<TF_Succeed>(id, c); else tdispatch<TF_Fail>(id, c); }
	else { if (ok) c.succeed(); else c.fail(); }
#else
	if (ok) { if (withId) c.succeed(static_cast<ffsm2::StateID>(id)); else c.succeed(); }
	else    { if (withId) c.fail(static_cast<ffsm2::StateID>(id)); else c.fail(); }
#endif
	Ev& e = G.push(); e.kind = ok ? EV_SUCCEED : EV_FAIL; e.sid = sid; e.inj = inj; e.meth = meth; e.a = withId ? id : sid; e.b = withId;
}
template <typename C> inline void do_plan_append(C& c, uint8_t sid, uint8_t inj, uint8_t meth, uint8_t o, uint8_t d, uint8_t pv) {
	auto p = c.plan(); bool ok;
#if VX_TFORM
	int dd = d;
#if VX_PAYLOAD
	if (pv) { Payload pl = mk_payload(pv); const Payload& cpl = pl; tdispatch<TF_PlanChangeW1>(o, p, dd, cpl, ok); memset(&pl, 0xDD, sizeof pl); }
	else
#endif
		tdispatch<TF_PlanChange1>(o, p, dd, ok);
#else
#if VX_PAYLOAD
	if (pv) { Payload pl = mk_payload(pv); ok = p.changeWith(static_cast<ffsm2::StateID>(o), static_cast<ffsm2::StateID>(d), pl); memset(&pl, 0xDD, sizeof pl); }
	else
#endif
		ok = p.change(static_cast<ffsm2::StateID>(o), static_cast<ffsm2::StateID>(d));
#endif
	Ev& e = G.push(); e.kind = EV_PLAN_APPEND; e.sid = sid; e.inj = inj; e.meth = meth; e.a = o; e.b = d; e.c = pv; e.r = ok;
}
template <typename C> inline void do_plan_clear(C& c, uint8_t sid, uint8_t inj, uint8_t meth) { auto p = c.plan(); p.clear(); Ev& e = G.push(); e.kind = EV_PLAN_CLEAR; e.sid = sid; e.inj = inj; e.meth = meth; }
template <typename C> inline void do_plan_remove(C& c, uint8_t sid, uint8_t inj, uint8_t meth, unsigned mask) {
	auto p = c.plan(); unsigned pos = 0, visited = 0;
	for (auto it = p.begin(); it; ++it, ++pos) { ++visited; if ((mask >> pos) & 1u) it.remove(); }
	Ev& e = G.push(); e.kind = EV_PLAN_REMOVE; e.sid = sid; e.inj = inj; e.meth = meth; e.a = static_cast<uint8_t>(mask); e.b = static_cast<uint8_t>(visited);
}
#endif

void vx_attach_logger(bool on);   // defined after the logger type
template <typename C>
inline void perform_full(C& c, const Act& a, uint8_t sid, uint8_t inj, uint8_t meth) {
	switch (a.k) {
	case A_CHANGE: do_change(c, sid, inj, meth, a.a, 0); break;
	case A_CHANGEW: do_change(c, sid, inj, meth, a.a, a.pv); break;
#if VX_PLANS
	case A_SUCCEED: do_report(c, sid, inj, meth, true, false, 0); break;
	case A_FAIL: do_report(c, sid, inj, meth, false, false, 0); break;
	case A_SUCCEED_ID: do_report(c, sid, inj, meth, true, true, a.a); break;
	case A_FAIL_ID: do_report(c, sid, inj, meth, false, true, a.a); break;
	case A_PLAN_CHANGE: do_plan_append(c, sid, inj, meth, a.a, a.b, 0); break;
	case A_PLAN_CHANGEW: do_plan_append(c, sid, inj, meth, a.a, a.b, a.pv); break;
	case A_PLAN_CLEAR: do_plan_clear(c, sid, inj, meth); break;
	case A_FAIL_SUCCEED: do_report(c, sid, inj, meth, false, false, 0); do_report(c, sid, inj, meth, true, false, 0); break;
	case A_SUCCEED_FAIL: do_report(c, sid, inj, meth, true, false, 0); do_report(c, sid, inj, meth, false, false, 0); break;
	case A_SUCCEED_CHANGE: do_report(c, sid, inj, meth, true, false, 0); do_change(c, sid, inj, meth, a.a, 0); break;
	case A_CHANGE_SUCCEED: do_change(c, sid, inj, meth, a.a, 0); do_report(c, sid, inj, meth, true, false, 0); break;
#endif
	case A_CHANGE2: do_change(c, sid, inj, meth, a.a, 0); do_change(c, sid, inj, meth, a.b, 0); break;
#if VX_PAYLOAD
	case A_CHANGEW_ALIAS: { const Payload* pp = c.request().payload(); if (pp) { const uint8_t tag = rd_payload(reinterpret_cast<const uint8_t*>(pp)); Inst* mm = curInst(); const uint8_t before = mm->activeStateId();
			c.changeWith(static_cast<ffsm2::StateID>(a.a), *pp);
			Ev& e = G.push(); e.kind = EV_CHANGE; e.sid = sid; e.inj = inj; e.meth = meth; e.a = a.a; e.b = tag; e.req = rd_tx(c.request()); e.c = e.req.o; e.r = (mm->activeStateId() == before) ? 1 : 0; }
		else do_change(c, sid, inj, meth, a.a, 0); } break;
#endif
#if VX_LOG
	case A_LOG_ON: case A_LOG_OFF: { vx_attach_logger(a.k == A_LOG_ON); Ev& e = G.push(); e.kind = EV_LOG_ATTACH; e.sid = sid; e.inj = inj; e.meth = meth; e.a = a.k == A_LOG_ON; } break;
#endif
	case A_CHANGEW_CHANGE: do_change(c, sid, inj, meth, a.a, a.pv); do_change(c, sid, inj, meth, a.b, 0); break;
	case A_CHANGE_CHANGEW: do_change(c, sid, inj, meth, a.a, 0); do_change(c, sid, inj, meth, a.b, a.pv); break;
	default: break;
	}
}

template <typename C>
inline void perform_plan_edit(C& c, const Act& a, uint8_t sid, uint8_t inj, uint8_t meth) {
	(void)c; (void)a; (void)sid; (void)inj; (void)meth;
#if VX_PLANS
	switch (a.k) {
	case A_PLAN_CHANGE: do_plan_append(c, sid, inj, meth, a.a, a.b, 0); break;
	case A_PLAN_CHANGEW: do_plan_append(c, sid, inj, meth, a.a, a.b, a.pv); break;
	case A_PLAN_CLEAR: do_plan_clear(c, sid, inj, meth); break;
	default: break;
	}
#endif
}

inline int strat_site(uint8_t sid, uint8_t meth) { return sid == ROOT ? 2 * N : (meth == M_EG ? sid : N + sid); }

template <typename C>
inline void visit_guard(C& c, uint8_t sid, uint8_t inj, uint8_t meth, bool thisok) {
	Ev& e = G.push(); e.kind = EV_CB; e.sid = sid; e.inj = inj; e.meth = meth; e.ctl = 1;
	if (thisok) e.flags |= OF_THIS;
	obs_common(e, c); obs_current(e, c); obs_pending(e, c);
	++G.guard_cbs;
	const Vec<Act>& mn = menuGuard[sid == ROOT];
	unsigned k;
	if (inj && !(G.mf & MF_INJ_DECIDE)) k = 0;
	else if (G.mode == DM_STRATEGY) k = G.strat[strat_site(sid, meth)];
	else if (G.mode == DM_HOSTILE) k = static_cast<unsigned>(mn.n ? mn.n - 1 : 0);
	else k = G.choose(static_cast<unsigned>(mn.n));
	if (k >= mn.n) return;
	const Act& a = mn[k];
	switch (a.k) {
	case A_CANCEL: do_cancel(c, sid, inj, meth); break;
	case A_CANCEL_CHANGE: do_cancel(c, sid, inj, meth); do_change(c, sid, inj, meth, a.a, 0); break;
	case A_CANCEL_CHANGEW: do_cancel(c, sid, inj, meth); do_change(c, sid, inj, meth, a.a, a.pv); break;
	case A_CHANGE_CANCEL: do_change(c, sid, inj, meth, a.a, 0); do_cancel(c, sid, inj, meth); break;
	case A_CANCEL2: do_cancel(c, sid, inj, meth); do_cancel(c, sid, inj, meth); break;
	default: perform_full(c, a, sid, inj, meth); break;
	}
}

template <typename C>
inline void visit_full(C& c, uint8_t sid, uint8_t inj, uint8_t meth, bool thisok, const void* ev) {
	Ev& e = G.push(); e.kind = EV_CB; e.sid = sid; e.inj = inj; e.meth = meth; e.ctl = 3;
	if (thisok) e.flags |= OF_THIS;
	if (ev == G.event) e.flags |= OF_EVENT;
	obs_common(e, c); obs_current(e, c);
	if (G.mode != DM_DFS) return;
	if (inj && !(G.mf & MF_INJ_DECIDE)) return;
	const Vec<Act>& mn = menuFull[sid == ROOT];
	unsigned k = G.choose(static_cast<unsigned>(mn.n));
	if (k && k < mn.n) perform_full(c, mn[k], sid, inj, meth);
}

template <typename C>
inline void visit_life(C& c, uint8_t sid, uint8_t inj, uint8_t meth, bool thisok) {
	Ev& e = G.push(); e.kind = EV_CB; e.sid = sid; e.inj = inj; e.meth = meth; e.ctl = 2;
	if (thisok) e.flags |= OF_THIS;
	obs_common(e, c); obs_current(e, c);
#if VX_PLANS
	if (G.mode != DM_DFS || !(G.mf & MF_LIFE_EDIT)) return;
	if (inj && !(G.mf & MF_INJ_DECIDE)) return;
	const unsigned len = e.planlen;
	const unsigned nmask = len ? ((1u << len) - 1u) : 0u;
	unsigned k = G.choose(static_cast<unsigned>(menuLife.n) + nmask);
	if (!k) return;
	if (k < menuLife.n) perform_plan_edit(c, menuLife[k], sid, inj, meth);
	else do_plan_remove(c, sid, inj, meth, k - static_cast<unsigned>(menuLife.n) + 1u);
#endif
}

template <typename C>
inline void visit_const(C& c, uint8_t sid, uint8_t inj, uint8_t meth, bool thisok, const void* ev) {
	if (G.in_reentrant) { if (G.rq_n < 16) { G.rq_sid[G.rq_n] = sid; G.rq_inj[G.rq_n] = inj; ++G.rq_n; } if (ev != G.rq_event || !thisok) G.rq_identity = false; (void)c; return; }   // a query a callback sent to its own machine: counted on the side
	Ev& e = G.push(); e.kind = EV_CB; e.sid = sid; e.inj = inj; e.meth = meth; e.ctl = 4;
	if (thisok) e.flags |= OF_THIS;
	if (ev == G.event) e.flags |= OF_EVENT;
	obs_common(e, c);
}

template <typename T> inline bool same_object(const T& viaConst, const T& viaMutable) { return &viaConst == &viaMutable; }   // binds a temporary too, should access<>() ever return one
template <typename SELF, typename BASE> inline bool thisok(const BASE* self) {
	const Inst* cm = curInst();   // the const overload of access<T>() must name the same object
	return static_cast<const void*>(self) == static_cast<const void*>(static_cast<const BASE*>(&curInst()->template access<SELF>()))
		&& same_object(cm->template access<SELF>(), curInst()->template access<SELF>());
}

// --------------------------------------------------------------------------- logger
#if VX_LOG
struct Log : Inst::Logger {
	void recordMethod(const Context&, const StateID origin, const Method method) override { Ev& e = G.push(); e.kind = EV_LOG_METHOD; e.sid = origin; e.meth = static_cast<uint8_t>(method); }
	void recordTransition(const Context&, const StateID origin, const StateID target) override { Ev& e = G.push(); e.kind = EV_LOG_TRANS; e.sid = origin; e.a = target; }
#if VX_PLANS
	void recordTaskStatus(const Context&, const StateID origin, const StatusEvent event) override { Ev& e = G.push(); e.kind = EV_LOG_TASK; e.sid = origin; e.a = static_cast<uint8_t>(event); }
	void recordPlanStatus(const Context&, const StatusEvent event) override { Ev& e = G.push(); e.kind = EV_LOG_PLAN; e.a = static_cast<uint8_t>(event); }
#endif
	void recordCancelledPending(const Context&, const StateID origin) override { Ev& e = G.push(); e.kind = EV_LOG_CANCEL; e.sid = origin; }
};
static Log g_log;
inline void vx_attach_logger(bool on) { curInst()->attachLogger(on ? &g_log : nullptr); }
#else
inline void vx_attach_logger(bool) {}
#endif

// --------------------------------------------------------------------------- instance storage
static constexpr size_t INST_SIZE = sizeof(Inst);
struct alignas(64) Slot { unsigned char bytes[(sizeof(Inst) + 63) / 64 * 64 + 64]; };
static Slot g_slot[3];   // 0: the explored instance, 1: companion (copy / replica / loader), 2: scratch
inline Inst* inst(int s = 0) { return reinterpret_cast<Inst*>(g_slot[s].bytes); }

inline void construct(int slot, uint8_t prefill, bool withLogger) {
	memset(g_slot[slot].bytes, prefill, sizeof g_slot[slot].bytes);
#ifdef VX_MSAN
	__msan_poison(g_slot[slot].bytes, sizeof g_slot[slot].bytes);
#endif
	(void)withLogger;
	G.cur = g_slot[slot].bytes;
#if VX_LOG
	Log* lg = withLogger ? &g_log : nullptr;
#if VX_CTX == 0
	new (g_slot[slot].bytes) Inst(lg);
#elif VX_CTX == 3
	new (g_slot[slot].bytes) Inst(&g_ctx, lg);
#elif VX_CTX == 4
	new (g_slot[slot].bytes) Inst(Ctx(g_ctx), lg);
#else
	new (g_slot[slot].bytes) Inst(g_ctx, lg);
#endif
#else
#if VX_CTX == 0
	new (g_slot[slot].bytes) Inst();
#elif VX_CTX == 3
	new (g_slot[slot].bytes) Inst(&g_ctx);
#elif VX_CTX == 4
	new (g_slot[slot].bytes) Inst(Ctx(g_ctx));
#else
	new (g_slot[slot].bytes) Inst(g_ctx);
#endif
#endif
}

// --------------------------------------------------------------------------- canonical key: every named field of CoreT, no padding
static constexpr size_t KEYMAX = 4096;   // upper bound of the canonical key (payloads of several hundred bytes appear in it a few times)
struct KeyW { uint8_t* p; size_t n; void u8(uint8_t v) { p[n++] = v; } void raw(const void* s, size_t k) { memcpy(p + n, s, k); n += k; } };

template <typename T> inline void key_tx(KeyW& w, const T& t) {
	w.u8(t.origin); w.u8(t.destination); w.u8(static_cast<uint8_t>(t.method));
#if VX_PAYLOAD
	uint8_t ps; memcpy(&ps, &t.payloadSet, 1); w.u8(ps); w.raw(&t.storage, PSIZE);
#endif
}

inline size_t make_key(const Inst& m, uint8_t* out) {
	KeyW w{out, 0};
	const auto& c = m._core;
	w.u8(c.registry.active); w.u8(c.registry.requested);
	key_tx(w, c.request);
#if VX_HIST
	key_tx(w, c.previousTransition);
#endif
#if VX_PLANS
	const auto& pd = c.planData;
	w.u8(pd.tasks._vacantHead); w.u8(pd.tasks._vacantTail); w.u8(pd.tasks._last); w.u8(pd.tasks._count);
#if defined(VX_MSAN) && VX_PAYLOAD
	const unsigned occ_ = occupied_tasks(m);
#endif
	for (int i = 0; i < static_cast<int>(Inst::TASK_CAPACITY); ++i) {
		const auto& it = pd.tasks._items[i];
		w.u8(it.origin); w.u8(it.destination);
#if VX_PAYLOAD
#ifdef VX_MSAN
		if (!((occ_ >> i) & 1u)) { w.u8(0); uint8_t z[PSIZE]; memset(z, 0, sizeof z); w.raw(z, PSIZE); } else   // payload members of vacant slots are poisoned (see poison_vacant)
#endif
		{ uint8_t ps; memcpy(&ps, &it.payloadSet, 1); w.u8(ps); w.raw(&it.storage, PSIZE); }
#endif
		w.u8(pd.taskLinks._items[i].prev); w.u8(pd.taskLinks._items[i].next);
	}
	w.u8(pd.tasksBounds.first); w.u8(pd.tasksBounds.last);
	w.raw(&pd.tasksSuccesses, sizeof pd.tasksSuccesses); w.raw(&pd.tasksFailures, sizeof pd.tasksFailures);
	uint8_t pe; memcpy(&pe, &pd.planExists, 1); w.u8(pe);
	int32_t hs, ss; memcpy(&hs, &pd.headStatus, sizeof hs); memcpy(&ss, &pd.subStatus, sizeof ss); w.u8(static_cast<uint8_t>(hs)); w.u8(static_cast<uint8_t>(ss));
#endif
#if VX_LOG
	w.u8(c.logger != nullptr);
#endif
	return w.n;
}

// --------------------------------------------------------------------------- abstraction read through the public API (plus the outstanding request)
struct Abs {
	uint8_t active;           // NONE8 when inactive
	uint8_t mask;             // isActive(k) bits
	uint8_t manualActive;     // manual machines: isActive()
	TxS req, prev;
	uint8_t planlen; TxS plan[MAXPLAN]; uint8_t planbool;
	uint8_t succ, fail;       // report bits per state (private state, read for the refinement model only)
	uint8_t exists;           // raw byte of planExists
	uint8_t logger;
};

inline void read_abs(Inst& m, Abs& a) {
	memset(&a, 0, sizeof a);
	a.active = m.activeStateId();
	for (int k = 0; k < N; ++k) if (is_active_of(m, k)) a.mask |= static_cast<uint8_t>(1u << k);
#if VX_MANUAL
	a.manualActive = m.isActive() ? 1 : 0;
#else
	a.manualActive = a.active != NONE8;
#endif
	a.req = rd_tx(m._core.request);
#if VX_HIST
	a.prev = rd_tx(m.previousTransition());
#else
	a.prev = TX_NONE;
#endif
#if VX_PLANS
	{
		auto p = m.plan(); int n = 0; a.planbool = static_cast<bool>(p);
		for (auto it = p.begin(); it; ++it) { if (n < MAXPLAN) a.plan[n] = rd_task(*it); ++n; }
		a.planlen = static_cast<uint8_t>(n);
		{ // the read-only view a const machine offers must agree: emptiness test and the tasks its iteration yields
			const Inst& cm = m; auto cp = cm.plan(); int cn = 0; bool same = static_cast<bool>(cp) == static_cast<bool>(p);
			for (auto it = cp.begin(); it; ++it) { if (cn < MAXPLAN && cn < n && !(rd_task(*it) == a.plan[cn])) same = false; ++cn; if (cn > MAXPLAN + 2) break; }
			if (cn != n) same = false;
			if (!same) a.planbool = 2; }
		for (int k = 0; k < N; ++k) { if (m._core.planData.tasksSuccesses.get(k)) a.succ |= static_cast<uint8_t>(1u << k); if (m._core.planData.tasksFailures.get(k)) a.fail |= static_cast<uint8_t>(1u << k); }
		memcpy(&a.exists, &m._core.planData.planExists, 1);
	}
#endif
#if VX_LOG
	a.logger = m._core.logger != nullptr;
#endif
}

#if VX_PLANS
static constexpr int TASK_CAP = Inst::TASK_CAPACITY;
#else
static constexpr int TASK_CAP = 0;
#endif

} // namespace vx
