// vx_core.hpp -- FFSM2-independent pieces of the explicit-state explorer:
// choice driver, trace buffer, open-addressing state store, hashing, tiny output helpers.
// Deliberately free of out-of-line libstdc++ (no std::string / containers) so that the MSan build
// of a harness does not produce reports from uninstrumented library code.
#pragma once
#include <stdint.h>
#include <stdio.h>
#include <stdlib.h>
#include <string.h>
#include <stdarg.h>
#include <unistd.h>

namespace vx {

[[noreturn]] inline void die(const char* fmt, ...) {
	va_list ap; va_start(ap, fmt);
	fprintf(stderr, "vx: fatal: "); vfprintf(stderr, fmt, ap); fprintf(stderr, "\n");
	va_end(ap);
	fflush(nullptr);
	_exit(3);
}

// ---------------------------------------------------------------------------
// allocation guard: the harness sets in_lib around every FFSM2 call; the wrapped allocation entry
// points (see fsmx.cpp / -Wl,--wrap) count any allocation made while it is set.
struct AllocGuard { volatile int in_lib = 0; volatile unsigned long hits = 0; };
extern AllocGuard g_alloc;

// ---------------------------------------------------------------------------
inline uint64_t fnv(const void* p, size_t n, uint64_t h = 1469598103934665603ull) {
	const uint8_t* b = static_cast<const uint8_t*>(p);
	for (size_t i = 0; i < n; ++i) { h ^= b[i]; h *= 1099511628211ull; }
	return h;
}
inline uint64_t mix(uint64_t x) { x ^= x >> 33; x *= 0xff51afd7ed558ccdull; x ^= x >> 33; x *= 0xc4ceb9fe1a85ec53ull; x ^= x >> 33; return x; }

// ---------------------------------------------------------------------------
// growable POD buffer
template <typename T>
struct Vec {
	T* p = nullptr; size_t n = 0, cap = 0;
	void reserve(size_t c) { if (c > cap) { size_t nc = cap ? cap * 2 : 64; if (nc < c) nc = c; p = static_cast<T*>(realloc(p, nc * sizeof(T))); if (!p) die("oom"); cap = nc; } }
	void push(const T& v) { reserve(n + 1); p[n++] = v; }
	T& operator[](size_t i) { return p[i]; }
	const T& operator[](size_t i) const { return p[i]; }
	void clear() { n = 0; }
};

// ---------------------------------------------------------------------------
// state store: fixed-size key and snapshot per state, open addressing by key hash
struct Store {
	size_t keylen = 0, snaplen = 0;
	Vec<uint8_t> keys, snaps;
	Vec<uint64_t> hashes;
	Vec<uint32_t> table; size_t mask = 0;
	size_t count = 0;

	void init(size_t kl, size_t sl) { keylen = kl; snaplen = sl; table.reserve(1 << 12); table.n = 1 << 12; mask = table.n - 1; memset(table.p, 0xff, table.n * 4); }
	const uint8_t* key(size_t i) const { return keys.p + i * keylen; }
	const uint8_t* snap(size_t i) const { return snaps.p + i * snaplen; }
	void grow() {
		size_t nn = table.n * 2; table.reserve(nn); table.n = nn; mask = nn - 1; memset(table.p, 0xff, nn * 4);
		for (size_t i = 0; i < count; ++i) { size_t s = hashes[i] & mask; while (table[s] != 0xffffffffu) s = (s + 1) & mask; table[s] = static_cast<uint32_t>(i); }
	}
	// returns index; *isnew set when inserted
	size_t intern(const uint8_t* k, const uint8_t* snap_, bool* isnew) {
		uint64_t h = mix(fnv(k, keylen));
		size_t s = h & mask;
		while (table[s] != 0xffffffffu) { size_t i = table[s]; if (hashes[i] == h && !memcmp(key(i), k, keylen)) { *isnew = false; return i; } s = (s + 1) & mask; }
		size_t i = count++;
		keys.reserve((i + 1) * keylen); memcpy(keys.p + i * keylen, k, keylen); keys.n = (i + 1) * keylen;
		snaps.reserve((i + 1) * snaplen); memcpy(snaps.p + i * snaplen, snap_, snaplen); snaps.n = (i + 1) * snaplen;
		hashes.push(h);
		table[s] = static_cast<uint32_t>(i);
		if (count * 2 > table.n) grow();
		*isnew = true; return i;
	}
	// forgets the states interned after the first c0 (used by bounded look-aheads that must leave the search frontier untouched)
	void rollback(size_t c0) {
		if (c0 >= count) return;
		count = c0; keys.n = c0 * keylen; snaps.n = c0 * snaplen; hashes.n = c0;
		memset(table.p, 0xff, table.n * 4);
		for (size_t i = 0; i < count; ++i) { size_t s = hashes[i] & mask; while (table[s] != 0xffffffffu) s = (s + 1) & mask; table[s] = static_cast<uint32_t>(i); }
	}
	long find(const uint8_t* k) const {
		uint64_t h = mix(fnv(k, keylen));
		size_t s = h & mask;
		while (table[s] != 0xffffffffu) { size_t i = table[s]; if (hashes[i] == h && !memcmp(key(i), k, keylen)) return static_cast<long>(i); s = (s + 1) & mask; }
		return -1;
	}
};

// set of 64-bit values (distinct trace digests etc.)
struct Set64 {
	Vec<uint64_t> t; size_t mask = 0, count = 0;
	void init() { t.reserve(1 << 10); t.n = 1 << 10; mask = t.n - 1; memset(t.p, 0, t.n * 8); }
	bool add(uint64_t v) {
		if (!v) v = 1;
		if (!t.n) init();
		size_t s = mix(v) & mask;
		while (t[s]) { if (t[s] == v) return false; s = (s + 1) & mask; }
		t[s] = v; ++count;
		if (count * 2 > t.n) { Vec<uint64_t> o = t; t = Vec<uint64_t>(); t.reserve(o.n * 2); t.n = o.n * 2; mask = t.n - 1; memset(t.p, 0, t.n * 8); count = 0; for (size_t i = 0; i < o.n; ++i) if (o[i]) add(o[i]); free(o.p); }
		return true;
	}
};

// ---------------------------------------------------------------------------
// small append-only text buffer (for witnesses / JSON fragments)
struct Text {
	char* p = nullptr; size_t n = 0, cap = 0;
	void add(const char* fmt, ...) {
		va_list ap; va_start(ap, fmt); va_list ap2; va_copy(ap2, ap);
		int need = vsnprintf(nullptr, 0, fmt, ap); va_end(ap);
		if (n + need + 1 > cap) { cap = (n + need + 1) * 2 + 256; p = static_cast<char*>(realloc(p, cap)); if (!p) die("oom"); }
		vsnprintf(p + n, need + 1, fmt, ap2); va_end(ap2); n += need;
	}
	void clear() { n = 0; if (p) p[0] = 0; }
	const char* c() const { return p ? p : ""; }
};

inline void json_str(FILE* f, const char* s) {
	fputc('"', f);
	for (; *s; ++s) { unsigned char c = static_cast<unsigned char>(*s); if (c == '"' || c == '\\') { fputc('\\', f); fputc(c, f); } else if (c == '\n') fputs("\\n", f); else if (c < 32) fprintf(f, "\\u%04x", c); else fputc(c, f); }
	fputc('"', f);
}

} // namespace vx
