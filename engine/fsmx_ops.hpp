// fsmx_ops.hpp -- the operation alphabet (public API calls) and the edge record handed to the monitors.
#pragma once
#include "fsmx_machine.hpp"

namespace vx {

enum OpK : uint8_t {
	OP_CONSTRUCT = 0,   // a = 1 with logger attached at construction
	OP_UPDATE, OP_REACT, OP_QUERY,
	OP_CHANGE, OP_IMM,             // a = destination
	OP_CHANGEW, OP_IMMW,           // a = destination, b = payload tag
	OP_ENTER, OP_EXIT,             // manual activation
	OP_REPLAY_T, OP_REPLAY_T_INV,  // a = destination
	OP_REPLAY_E,                   // a = destination (manual, inactive)
	OP_SAVE, OP_LOAD,              // OP_LOAD a = activity to load (N = inactive)
	OP_COPY, OP_DESTROY,
	OP_ATTACH,                     // a = 0 detach / 1 attach
	OP_PLAN_CHANGE, OP_PLAN_CHANGEW, OP_PLAN_CLEAR, OP_PLAN_REMOVE,   // a = origin / mask, b = destination, c = payload tag
	OP_SUCCEED, OP_FAIL,           // a = state
	OP_LOAD_BLANK,                 // automatic machines: load() of a buffer whose activity bit is clear (an all-zero buffer): nothing may happen
	OP_COUNT
};
static const char* const OP_NAME[] = {"construct", "update", "react", "query", "changeTo", "immediateChangeTo", "changeWith", "immediateChangeWith", "enter", "exit",
	"replayTransition", "replayTransition(INVALID)", "replayEnter", "save", "load", "copy", "destroy", "attachLogger",
	"plan.change", "plan.changeWith", "plan.clear", "plan.remove", "succeed", "fail", "load(<blank buffer>)"};

struct Op { uint8_t k, a, b, c; };

enum OpGroup : unsigned {
	OG_CORE = 1, OG_REACT = 2, OG_QUERY = 4, OG_PAYLOAD = 8, OG_MANUAL = 16, OG_REPLAY = 32, OG_SERIAL = 64, OG_COPY = 128,
	OG_DESTROY = 256, OG_LOG = 512, OG_PLAN = 1024, OG_REPORT = 2048, OG_PAYLOAD2 = 4096, OG_PLAN_REMOVE = 8192, OG_IMM = 16384, OG_WITHDRAW = 32768   /* changeTo(INVALID_STATE_ID), what changeTo<Head>() amounts to: withdraws the waiting request */
};

inline bool op_processes(uint8_t k) { return k == OP_UPDATE || k == OP_REACT || k == OP_IMM || k == OP_IMMW; }
inline bool op_activates(const Op& o) { return (o.k == OP_CONSTRUCT && !VX_MANUAL) || o.k == OP_ENTER; }

static EvA g_event{41};
static EvB g_event_b{77};
static QA g_query{43};
static const QB g_query_b{47};

#if VX_SER
struct SerBuf { uint8_t pre[16]; Inst::SerialBuffer buf; uint8_t post[16]; };
static SerBuf g_loadbuf[N + 1];       // canonical buffers per activity, produced at start-up by save()
static bool g_loadbuf_ok[N + 1];
static SerBuf g_savebuf;
#endif

#if VX_REENTRANT
// What user code may do from inside any callback through its context: ask the machine. A const query reaches the head and the state the
// machine reports as active at that moment (each member of their delivery groups once, with the caller's object); save() writes the
// canonical buffer of that activity.
inline uint8_t reentrant_probe(Inst& m) {
	uint8_t bits = 0; G.in_reentrant = true;
	const uint8_t act = m.activeStateId();
	if (act != NONE8) {
		static const QB rq{91}; G.rq_n = 0; G.rq_event = &rq; G.rq_identity = true;
		const Inst& cm = m; cm.query(rq);
		unsigned seenR = 0, seenA = 0; bool ok = G.rq_identity;
		for (int i = 0; i < G.rq_n; ++i) { if (G.rq_sid[i] == ROOT) { if (seenR & (1u << G.rq_inj[i])) ok = false; seenR |= 1u << G.rq_inj[i]; } else if (G.rq_sid[i] == act) { if (seenA & (1u << G.rq_inj[i])) ok = false; seenA |= 1u << G.rq_inj[i]; } else ok = false; }
		unsigned wantR = 0, wantA = 0;
		if (VX_HEAD) { wantR = 1u; for (int j = 1; j <= INJ_ROOT; ++j) wantR |= 1u << j; }
		if (own_defined(act, M_QUERY) && !(VX_BARE && act == N - 1)) wantA |= 1u; for (int j = 1; j <= INJ_OF[act]; ++j) wantA |= 1u << j;
		if (seenR != wantR || seenA != wantA) ok = false;
		if (!ok) bits |= 0x20;
	}
#if VX_SER
	if (VX_MANUAL || act != NONE8) {
		static SerBuf tmp; memset(&tmp, 0xC3, sizeof tmp); m.save(tmp.buf);
		const int a = act == NONE8 ? N : act;
		if (g_loadbuf_ok[a] && memcmp(&tmp.buf, &g_loadbuf[a].buf, sizeof tmp.buf)) bits |= 0x10;
		for (int i = 0; i < 16; ++i) if (tmp.pre[i] != 0xC3 || tmp.post[i] != 0xC3) bits |= 0x10;
	}
#endif
	G.in_reentrant = false;
	return bits;
}
#endif

struct OpResult { uint8_t ret; uint8_t aux; uint8_t copyEqual; uint8_t saveOk; uint8_t heldViewStale; };

// Executes one API call on the instance in slot `slot` (G.cur). The caller has already prepared the driver.
inline OpResult apply(const Op& op, int slot) {
	OpResult r{0, 0, 1, 1};
	Inst& m = *inst(slot);
	G.cur = &m; G.event = nullptr;
#if VX_PLANS
	// a read-only plan view obtained before the call keeps showing the machine's plan, not a snapshot of it (checked after the call)
	const Inst& cm0 = m; auto heldView = cm0.plan();
#endif
	g_alloc.in_lib = 1;
	switch (op.k) {
	case OP_UPDATE: m.update(); break;
	case OP_REACT:
#if VX_EVB
		if (op.a) { G.event = &g_event_b; m.react(g_event_b); break; }   // the second event type
#endif
		G.event = &g_event; m.react(g_event); break;
	case OP_QUERY: if (op.a) { G.event = &g_query_b; m.query(g_query_b); } else { G.event = &g_query; m.query(g_query); } break;   // a = 1: a const query object
#if VX_TFORM
	case OP_CHANGE: tdispatch<TF_Change>(op.a, m); break;
	case OP_IMM: tdispatch<TF_Imm>(op.a, m); break;
#if VX_PAYLOAD
	case OP_CHANGEW: { Payload p = mk_payload(op.b); const Payload& cp = p; tdispatch<TF_ChangeW>(op.a, m, cp); memset(&p, 0xDD, sizeof p); } break;
	case OP_IMMW: { Payload p = mk_payload(op.b); const Payload& cp = p; tdispatch<TF_ImmW>(op.a, m, cp); memset(&p, 0xDD, sizeof p); } break;
#endif
#else
	case OP_CHANGE: m.changeTo(static_cast<ffsm2::StateID>(op.a)); break;
	case OP_IMM: m.immediateChangeTo(static_cast<ffsm2::StateID>(op.a)); break;
#if VX_PAYLOAD
	case OP_CHANGEW: { Payload p = mk_payload(op.b); m.changeWith(static_cast<ffsm2::StateID>(op.a), p); memset(&p, 0xDD, sizeof p); } break;
	case OP_IMMW: { Payload p = mk_payload(op.b); m.immediateChangeWith(static_cast<ffsm2::StateID>(op.a), p); memset(&p, 0xDD, sizeof p); } break;
#endif
#endif
#if VX_MANUAL
	case OP_ENTER: m.enter(); break;
	case OP_EXIT: m.exit(); break;
#endif
#if VX_HIST
	case OP_REPLAY_T: r.ret = m.replayTransition(static_cast<ffsm2::StateID>(op.a)); break;
	case OP_REPLAY_T_INV: r.ret = m.replayTransition(ffsm2::INVALID_STATE_ID); break;
#if VX_MANUAL
	case OP_REPLAY_E: m.replayEnter(static_cast<ffsm2::StateID>(op.a)); break;
#endif
#endif
#if VX_SER
	case OP_SAVE: {
		memset(&g_savebuf, 0xC3, sizeof g_savebuf);
		m.save(g_savebuf.buf);
		for (int i = 0; i < 16; ++i) if (g_savebuf.pre[i] != 0xC3 || g_savebuf.post[i] != 0xC3) r.saveOk = 0;
		const unsigned bits = Inst::SerialBuffer::BIT_CAPACITY;
		const uint8_t* d = g_savebuf.buf.data();
		for (unsigned b = bits; b < sizeof(Inst::SerialBuffer) * 8; ++b) if (d[b >> 3] & (1u << (b & 7))) r.saveOk = 0;
	} break;
	case OP_LOAD:
		if (op.b) {   // round trip through a buffer that was used before: save() into it, load() from it (op.a names the current activity)
			static SerBuf tmp; memset(&tmp, op.b == 1 ? 0xFF : 0xA5, sizeof tmp);
			m.save(tmp.buf); m.load(tmp.buf);
		} else m.load(g_loadbuf[op.a].buf);
		break;
	case OP_LOAD_BLANK: { static SerBuf blank; memset(&blank, 0, sizeof blank); m.load(blank.buf); } break;
#endif
#if VX_LOG
	case OP_ATTACH: m.attachLogger(op.a ? &g_log : nullptr); break;
#endif
#if VX_PLANS
#if VX_TFORM
	case OP_PLAN_CHANGE: { auto p = m.plan(); int d = op.b; bool ok = false; tdispatch<TF_PlanChange1>(op.a, p, d, ok); r.ret = ok; } break;
#if VX_PAYLOAD
	case OP_PLAN_CHANGEW: { auto p = m.plan(); Payload pl = mk_payload(op.c); const Payload& cpl = pl; int d = op.b; bool ok = false; tdispatch<TF_PlanChangeW1>(op.a, p, d, cpl, ok); r.ret = ok; memset(&pl, 0xDD, sizeof pl); } break;
#endif
#else
	case OP_PLAN_CHANGE: { auto p = m.plan(); r.ret = p.change(static_cast<ffsm2::StateID>(op.a), static_cast<ffsm2::StateID>(op.b)); } break;
#if VX_PAYLOAD
	case OP_PLAN_CHANGEW: { auto p = m.plan(); Payload pl = mk_payload(op.c); r.ret = p.changeWith(static_cast<ffsm2::StateID>(op.a), static_cast<ffsm2::StateID>(op.b), pl); memset(&pl, 0xDD, sizeof pl); } break;
#endif
#endif
	case OP_PLAN_CLEAR: { auto p = m.plan(); p.clear(); } break;
	case OP_PLAN_REMOVE: { auto p = m.plan(); unsigned pos = 0; for (auto it = p.begin(); it; ++it, ++pos) { ++r.aux; if ((op.a >> pos) & 1u) it.remove(); } } break;
#if VX_TFORM
	case OP_SUCCEED: tdispatch<TF_Succeed>(op.a, m); break;
	case OP_FAIL: tdispatch<TF_Fail>(op.a, m); break;
#else
	case OP_SUCCEED: m.succeed(static_cast<ffsm2::StateID>(op.a)); break;
	case OP_FAIL: m.fail(static_cast<ffsm2::StateID>(op.a)); break;
#endif
#endif
	case OP_DESTROY: m.~Inst(); break;
	default: die("apply: op kind %d not available in this configuration", op.k);
	}
	g_alloc.in_lib = 0;
	if (op.k != OP_DESTROY) poison_vacant(m);
#if VX_PLANS
	if (op.k != OP_DESTROY) {
		auto fresh = cm0.plan(); bool same = static_cast<bool>(heldView) == static_cast<bool>(fresh);
		auto a = heldView.begin(); auto b = fresh.begin(); int guard = 0;
		while (same && static_cast<bool>(a) && static_cast<bool>(b) && guard++ < MAXPLAN + 2) { if (!(rd_task(*a) == rd_task(*b))) same = false; ++a; ++b; }
		if (same && (static_cast<bool>(a) != static_cast<bool>(b))) same = false;
		r.heldViewStale = same ? 0 : 1;
	}
#endif
	return r;
}

inline void op_text(Text& t, const Op& op) {
	switch (op.k) {
	case OP_CONSTRUCT: t.add("construct(%s)", op.a ? "logger" : "-"); break;
	case OP_CHANGE: case OP_IMM: case OP_REPLAY_T: case OP_REPLAY_E: case OP_SUCCEED: case OP_FAIL: t.add("%s(%d)", OP_NAME[op.k], op.a); break;
	case OP_CHANGEW: case OP_IMMW: t.add("%s(%d,p%d)", OP_NAME[op.k], op.a, op.b); break;
	case OP_LOAD: if (op.b) t.add("save+load(reused buffer 0x%02x)", op.b == 1 ? 0xFF : 0xA5); else if (op.a == N) t.add("load(<inactive>)"); else t.add("load(<active %d>)", op.a); break;
	case OP_ATTACH: t.add("attachLogger(%s)", op.a ? "on" : "null"); break;
	case OP_PLAN_CHANGE: t.add("plan.change(%d,%d)", op.a, op.b); break;
	case OP_PLAN_CHANGEW: t.add("plan.changeWith(%d,%d,p%d)", op.a, op.b, op.c); break;
	case OP_PLAN_REMOVE: t.add("plan.iterate-remove(mask=%u)", op.a); break;
	case OP_REACT: t.add(op.a ? "react(EvB)" : "react()"); break;
	case OP_QUERY: t.add(op.a ? "query(const QB)" : "query()"); break;
	default: t.add("%s()", OP_NAME[op.k]); break;
	}
}

inline void tx_text(Text& t, const TxS& x) {
	if (tx_empty(x)) { t.add("-"); return; }
	if (x.o == NONE8) t.add("*>%d", x.d); else t.add("%d>%d", x.o, x.d);
	if (x.set) t.add("/p%d%s", x.tag, x.set == 3 ? "!misaligned" : "");
}

inline void ev_text(Text& t, const Ev& e, bool withObs) {
	char who[16];
	if (e.sid == ROOT) snprintf(who, sizeof who, "R"); else snprintf(who, sizeof who, "S%d", e.sid);
	switch (e.kind) {
	case EV_CB:
		t.add("%s", who); if (e.inj) t.add(".I%d", e.inj); t.add(".%s", METH_NAME[e.meth]);
		if (withObs) { t.add("[act=%d", e.m_active == NONE8 ? -1 : e.m_active); if (!tx_empty(e.req)) { t.add(" req="); tx_text(t, e.req); } if ((e.flags & OF_PEND)) { t.add(" pend="); tx_text(t, e.pend); } if ((e.flags & OF_CUR) && !tx_empty(e.cur)) { t.add(" cur="); tx_text(t, e.cur); } if (e.planlen) { t.add(" plan="); for (int i = 0; i < e.planlen && i < MAXPLAN; ++i) { if (i) t.add(","); tx_text(t, e.plan[i]); } } t.add("]"); }
		break;
	case EV_CHANGE: if (e.b) t.add("+changeWith(%d,p%d)", e.a, e.b); else t.add("+changeTo(%d)", e.a); break;
	case EV_CANCEL: t.add("+cancel"); break;
	case EV_SUCCEED: t.add(e.b ? "+succeed(%d)" : "+succeed()", e.a); break;
	case EV_FAIL: t.add(e.b ? "+fail(%d)" : "+fail()", e.a); break;
	case EV_PLAN_APPEND: t.add("+plan.change%s(%d,%d)=%d", e.c ? "With" : "", e.a, e.b, e.r); break;
	case EV_PLAN_CLEAR: t.add("+plan.clear"); break;
	case EV_PLAN_REMOVE: t.add("+plan.remove(mask=%u)", e.a); break;
	case EV_LOG_METHOD: t.add("log:method(%s,%s)", who, e.meth < 15 ? METH_NAME[e.meth] : "?"); break;
	case EV_LOG_TRANS: t.add("log:transition(%s>%d)", who, e.a); break;
	case EV_LOG_TASK: t.add("log:task(%s,%s)", who, e.a ? "FAILED" : "SUCCEEDED"); break;
	case EV_LOG_CANCEL: t.add("log:cancelled(%s)", who); break;
	case EV_LOG_PLAN: t.add("log:plan(%d)", e.a); break;
	case EV_MARK: t.add("|mark%d|", e.a); break;
	default: t.add("?"); break;
	}
}

// One executed edge of the state graph.
struct Edge {
	bool initial;            // construction edge (no pre-state)
	bool terminal;           // the instance is dead afterwards (destroy)
	long pre_idx;
	Abs pre, post;
	Op op;
	OpResult res;
	int ndev; uint16_t dev_pos[MAXDEV], dev_alt[MAXDEV];
	const Ev* tr; int nev;
	bool overflow, diverged;
	bool key_unchanged;      // canonical key after == before
	unsigned long guard_cbs;
	bool logger_on;          // a logger was attached while the call ran
};

inline void abs_text(Text& t, const Abs& a) {
	t.add("{act=%d", a.active == NONE8 ? -1 : a.active);
	if (!tx_empty(a.req)) { t.add(" req="); tx_text(t, a.req); }
	if (!tx_empty(a.prev)) { t.add(" prev="); tx_text(t, a.prev); }
#if VX_PLANS
	t.add(" plan=["); for (int i = 0; i < a.planlen && i < MAXPLAN; ++i) { if (i) t.add(","); tx_text(t, a.plan[i]); } t.add("] succ=%x fail=%x exists=%d", a.succ, a.fail, a.exists);
#endif
	t.add("}");
}

inline void edge_text(Text& t, const Edge& e, bool withObs) {
	if (!e.initial) { t.add("pre="); abs_text(t, e.pre); t.add(" "); }
	t.add("op="); op_text(t, e.op);
	if (e.ndev) { t.add(" decisions="); for (int i = 0; i < e.ndev; ++i) t.add("%s%d.%d", i ? "," : "", e.dev_pos[i], e.dev_alt[i]); }
	t.add(" trace:");
	for (int i = 0; i < e.nev; ++i) { t.add(" "); ev_text(t, e.tr[i], withObs); }
	if (!e.terminal) { t.add(" => post="); abs_text(t, e.post); }
}

} // namespace vx
