// fsmx_extra.hpp -- plan reference model (C08, C09, C10), serialization (C12), injections (C15), logging (C16),
// copies (C17), alignment/allocation (C18) and the companion-instance checks (replica for C11, copy differential for C17).
#pragma once
#include "fsmx_monitors.hpp"

namespace vx {

static bool g_strategy_mode = false;
static unsigned long n_companion_runs = 0;

// =========================================================================== start-up: canonical serialization buffers
inline void quiet_begin() { G.mode = DM_QUIET; uint16_t z = 0; G.begin(0, &z, &z); }

inline void prepare_extras() {
#if VX_SER
	for (int x = 0; x <= N; ++x) g_loadbuf_ok[x] = false;
	for (int x = 0; x < N; ++x) {
		quiet_begin(); construct(2, 0x11, false); Inst& m = *inst(2); G.cur = &m;
#if VX_MANUAL
		if (x == 0) { memset(&g_loadbuf[N], 0xC3, sizeof(SerBuf)); m.save(g_loadbuf[N].buf); g_loadbuf_ok[N] = true; }
		m.enter();
#endif
		if (x) m.immediateChangeTo(static_cast<ffsm2::StateID>(x));
		if (m.activeStateId() != x) die("prepare_extras: could not drive scratch machine to state %d", x);
		memset(&g_loadbuf[x], 0xC3, sizeof(SerBuf)); m.save(g_loadbuf[x].buf); g_loadbuf_ok[x] = true;
#if VX_MANUAL
		m.exit();
#else
		m.~Inst();
#endif
	}
#endif
}

// =========================================================================== OP_COPY: copy-construct, compare observers, destroy the copy
inline OpResult op_copy(Edge& e) {
	OpResult r{0, 0, 0, 1};
	memset(g_slot[1].bytes, 0x5C, sizeof g_slot[1].bytes);
#ifdef VX_MSAN
	__msan_poison(g_slot[1].bytes, sizeof g_slot[1].bytes);
#endif
	g_alloc.in_lib = 1;
	new (g_slot[1].bytes) Inst(*inst(0));
	g_alloc.in_lib = 0;
	Abs a0, a1; G.cur = inst(0); read_abs(*inst(0), a0); G.cur = inst(1); read_abs(*inst(1), a1);
	uint8_t k0[KEYMAX], k1[KEYMAX]; size_t n0 = make_key(*inst(0), k0), n1 = make_key(*inst(1), k1);
	uint8_t eq = 0;
	if (!memcmp(&a0, &a1, sizeof a0)) eq |= 1;
	if (n0 == n1 && !memcmp(k0, k1, n0)) eq |= 2;
	eq |= 4;
#if VX_SER
	if (VX_MANUAL || a0.active != NONE8) {
		SerBuf b0, b1; memset(&b0, 0xC3, sizeof b0); memset(&b1, 0xC3, sizeof b1);
		g_alloc.in_lib = 1; inst(0)->save(b0.buf); inst(1)->save(b1.buf); g_alloc.in_lib = 0;
		if (memcmp(&b0, &b1, sizeof b0)) eq &= static_cast<uint8_t>(~4u);
	}
#endif
	r.copyEqual = eq;
	// what differs (for the witness text)
	r.aux = 0; if (a0.active != a1.active) r.aux |= 1; if (a0.req != a1.req) r.aux |= 2; if (a0.prev != a1.prev) r.aux |= 4; if (a0.planlen != a1.planlen || memcmp(a0.plan, a1.plan, sizeof a0.plan)) r.aux |= 8; if (a0.succ != a1.succ || a0.fail != a1.fail || (a0.exists != 0) != (a1.exists != 0)) r.aux |= 16;
	{ Ev& m = G.push(); m.kind = EV_MARK; m.a = 2; }
	// destroying the copy: automatic machines run the final exit (in contract only without an outstanding request)
#if !VX_MANUAL
	if (tx_empty(a1.req)) { G.cur = inst(1); g_alloc.in_lib = 1; inst(1)->~Inst(); g_alloc.in_lib = 0; r.ret = 1; }
#endif
	G.cur = inst(0);
	(void)e;
	return r;
}

// =========================================================================== plan reference model (spec level)
struct PlanModel {
	uint8_t active; int len; TxS plan[MAXPLAN + 1]; uint8_t succ, fail; bool exists; TxS req;
};
enum { ST_NONE = 0, ST_SUCCESS = 1, ST_FAILURE = 2 };
// C09 look-ahead: when the report bits the machine keeps differ from the ones the history warrants, the explorer follows the
// machine a bounded number of default steps further with the warranted bits carried along (g_ghost_in), so that the consequence
// the property names -- an outcome callback in a cycle that does not warrant it -- is observed rather than inferred.
struct PlanGhost { bool valid; uint8_t succ, fail; bool exists; int len; TxS plan[MAXPLAN + 1]; };   // (the warranted plan content is carried the same way: a task the machine lost still remains)
static PlanGhost g_ghost_in = {false, 0, 0, false, 0, {}}, g_ghost_out = {false, 0, 0, false, 0, {}};
static bool g_ghost_diverged = false;

#if VX_PLANS
inline bool task_eq(const TxS& a, const TxS& b) { return a.o == b.o && a.d == b.d && (a.set != 0) == (b.set != 0) && a.tag == b.tag; }

inline void pm_from(const Abs& a, PlanModel& m) { m.active = a.active; m.len = a.planlen; for (int i = 0; i < a.planlen && i < MAXPLAN; ++i) m.plan[i] = a.plan[i]; m.succ = a.succ; m.fail = a.fail; m.exists = a.exists != 0; m.req = a.req; }

inline void pm_append(PlanModel& m, uint8_t o, uint8_t d, uint8_t pv, bool* ok) {
	if (m.len < TASK_CAP) { m.plan[m.len++] = TxS{o, d, static_cast<uint8_t>(pv ? 1 : 0), pv}; *ok = true; } else *ok = false;
	m.exists = true;   // once a task was ever appended; an append can only fail on a non-empty plan, where this already holds
}
inline void pm_clear(PlanModel& m) { m.len = 0; m.succ = m.fail = 0; }
inline void pm_remove(PlanModel& m, unsigned mask) { int k = 0; for (int i = 0; i < m.len; ++i) if (!((mask >> i) & 1u)) m.plan[k++] = m.plan[i]; m.len = k; }

// walks the whole edge; checks every observation of the plan against the model (C10), the plan step (C08), the outcome callbacks (C09)
inline void m_plans(const Edge& e, const Parsed& P, unsigned props) {
	if (e.terminal && e.op.k != OP_DESTROY) return;
	PlanModel m; memset(&m, 0, sizeof m);
	if (e.initial) { m.active = NONE8; m.req = TX_NONE; } else pm_from(e.pre, m);
	const bool ghost = g_ghost_in.valid && !e.initial;
	if (ghost) { m.succ = g_ghost_in.succ; m.fail = g_ghost_in.fail; m.exists = g_ghost_in.exists; m.len = g_ghost_in.len; for (int k = 0; k < m.len && k <= MAXPLAN; ++k) m.plan[k] = g_ghost_in.plan[k]; }
	g_ghost_out.valid = false; g_ghost_diverged = false;
	const uint8_t A0 = m.active;
	const bool cycle = e.op.k == OP_UPDATE || e.op.k == OP_REACT;
	bool stepDone = !cycle;
	int sub = ST_NONE, t = ST_NONE; int lastPhaseMeth = -1; bool lastWasSub = false;
	int expectOutcome = 0;             // M_PLAN_OK / M_PLAN_FAIL expected after the plan step
	int nF = 0; TxS F[MAXPLAN + 1];    // expected fired tasks
	int nSeenFired = 0; int outcomeSeen = 0; bool outcomeClearPending = false;
	int exitClearPending = -1;
	bool activeFailedThisCycle = false; bool anyFailCallThisCycle = false; bool planNonEmptyAtStep = false;
	bool checkEmptyAfterOutcome = false;
	const bool c08 = props & (1u << C08), c09 = props & (1u << C09);

	// API-level effects that precede the trace
	switch (e.op.k) {
	case OP_PLAN_CHANGE: case OP_PLAN_CHANGEW: { bool ok; pm_append(m, e.op.a, e.op.b, e.op.k == OP_PLAN_CHANGEW ? e.op.c : 0, &ok); } break;
	case OP_PLAN_CLEAR: pm_clear(m); break;
	case OP_PLAN_REMOVE: pm_remove(m, e.op.a); break;
	case OP_SUCCEED: m.succ |= static_cast<uint8_t>(1u << e.op.a); break;
	case OP_FAIL: m.fail |= static_cast<uint8_t>(1u << e.op.a); break;
	case OP_LOAD: if (A0 != NONE8) { pm_clear(m); m.exists = false; } break;
	default: break;
	}

	// The status a phase hands up for the sub-state is whatever the control holds when the sub-state's delivery returns -- also when
	// that state defines no handler for the event (nothing observable is delivered then). In the pre and main phases the head runs
	// first, so a report the head made in that phase is part of it; in the post phase the sub-state comes first.
	auto finish_phase_cb = [&]() { if (lastPhaseMeth >= 0 && (lastWasSub || lastPhaseMeth < 2) && t > sub) sub = t; };
	auto do_step = [&]() {
		if (stepDone) return; stepDone = true;
		finish_phase_cb(); lastPhaseMeth = -1;
		int s = sub; const int bit = (m.fail >> m.active) & 1 ? ST_FAILURE : ((m.succ >> m.active) & 1 ? ST_SUCCESS : ST_NONE); if (bit > s) s = bit;
		planNonEmptyAtStep = m.len > 0;
		if (s != ST_NONE && m.exists) {
			if (s == ST_FAILURE) expectOutcome = M_PLAN_FAIL;
			else if (m.len == 0) expectOutcome = M_PLAN_OK;
			else {
				uint8_t clearLater = 0; int k = 0; TxS rest[MAXPLAN + 1]; int j = 0;
				for (; j < m.len && m.plan[j].o == m.active; ++j) {
					const TxS tk = m.plan[j];
					if ((m.succ >> tk.o) & 1) { F[nF++] = tk; m.req = TxS{tk.o, tk.d, tk.set, tk.tag}; if (tk.o == tk.d) m.succ &= static_cast<uint8_t>(~(1u << tk.o)); else clearLater |= static_cast<uint8_t>(1u << tk.o); }
					else rest[k++] = tk;
				}
				for (; j < m.len; ++j) rest[k++] = m.plan[j];
				m.len = k; for (int i = 0; i < k; ++i) m.plan[i] = rest[i];
				m.succ &= static_cast<uint8_t>(~clearLater);
			}
			// a headless root has no outcome callback to deliver; the plan is cleared all the same
			if (expectOutcome && !head_defines_outcome(expectOutcome)) { expectOutcome = 0; pm_clear(m); }   // (also: a head that does not define that callback)
		}
	};
	auto apply_pending_clears = [&]() {
		if (exitClearPending >= 0) { m.succ &= static_cast<uint8_t>(~(1u << exitClearPending)); m.fail &= static_cast<uint8_t>(~(1u << exitClearPending)); exitClearPending = -1; }
		if (outcomeClearPending) { pm_clear(m); outcomeClearPending = false; checkEmptyAfterOutcome = true; }
	};

	for (int i = 0; i < e.nev; ++i) {
		const Ev& v = e.tr[i];
		if (v.kind == EV_MARK) break;
		if (v.kind == EV_CB) {
			if (v.inj) { continue; }
			const bool phase = is_phase(v.meth);
			if (!phase) { if (cycle && !stepDone) do_step(); }
			apply_pending_clears();
			if (phase) {
				const int region = (v.meth == M_PRE_UPDATE || v.meth == M_PRE_REACT) ? 0 : (v.meth == M_UPDATE || v.meth == M_REACT) ? 1 : 2;
				if (region != lastPhaseMeth) { finish_phase_cb(); t = ST_NONE; }                       // the previous phase has ended
				else if (lastPhaseMeth == 2 && lastWasSub && t > sub) sub = t;                          // post phase: the sub-state has just returned, the head follows
				lastPhaseMeth = region; lastWasSub = v.sid != ROOT;
			}
			if (c09 && checkEmptyAfterOutcome) { checkEmptyAfterOutcome = false; if (v.planlen) flag(C09, "plan-not-empty-after-outcome", e, "ev %d: %d tasks visible after the outcome callback returned", i, v.planlen); }
			if (v.meth == M_PLAN_OK || v.meth == M_PLAN_FAIL) {
				++outcomeSeen;
				if (c09) {
					if (!cycle) flag(C09, "outcome-outside-cycle", e, "%s delivered outside update()/react()", METH_NAME[v.meth]);
					if (outcomeSeen > 1) flag(C09, "two-outcomes-in-one-cycle", e, "ev %d", i);
					if (!m.exists) flag(C09, "outcome-without-any-task", e, "%s delivered although no task was added since activation", METH_NAME[v.meth]);
					if (v.meth != expectOutcome) flag(C09, "unwarranted-outcome", e, "%s delivered; warranted: %s", METH_NAME[v.meth], expectOutcome ? METH_NAME[expectOutcome] : "none");
					if (v.meth == M_PLAN_FAIL && (nSeenFired || nF)) flag(C09, "task-fired-in-failing-cycle", e, "%d tasks fired in the cycle that delivers planFailed", nF);
				}
				outcomeClearPending = true;
			}
			if (v.meth == M_EXIT && v.sid != ROOT) exitClearPending = v.sid;
			if (v.meth == M_ENTER && v.sid != ROOT) m.active = v.sid;
			if (v.meth == M_EXIT && v.sid == ROOT) { /* final exit: everything is cleared below */ }
			continue;
		}
		switch (v.kind) {
		case EV_SUCCEED: m.succ |= static_cast<uint8_t>(1u << v.a); if (is_phase(v.meth)) t = ST_SUCCESS; break;
		case EV_FAIL: m.fail |= static_cast<uint8_t>(1u << v.a); if (is_phase(v.meth)) { t = ST_FAILURE; anyFailCallThisCycle = true; if (v.a == A0) activeFailedThisCycle = true; } break;
		case EV_PLAN_APPEND: { bool ok; pm_append(m, v.a, v.b, v.c, &ok); } break;
		case EV_PLAN_CLEAR: pm_clear(m); break;
		case EV_PLAN_REMOVE: pm_remove(m, v.a); break;
		case EV_CHANGE: m.req = mkreq(v.sid, v.a, v.b); break;
		case EV_LOG_TRANS: {
			const bool echo = (i + 1 < e.nev && e.tr[i + 1].kind == EV_CHANGE && e.tr[i + 1].a == v.a);
			const bool ext = (i == 0 && (e.op.k == OP_CHANGE || e.op.k == OP_IMM || e.op.k == OP_CHANGEW || e.op.k == OP_IMMW));
			if (echo || ext) break;
			// a request issued by the plan
			if (!cycle) { if (c08) flag(C08, "task-fired-outside-plan-step", e, "ev %d: plan issued %d>%d outside update()/react()", i, v.sid, v.a); break; }
			if (!stepDone) do_step();
			if (c08) {
				if (P.firstGuard >= 0 && i > P.firstGuard) flag(C08, "task-fired-outside-plan-step", e, "ev %d: plan issued %d>%d after request processing began", i, v.sid, v.a);
				if (nSeenFired >= nF) flag(C08, "unexpected-task-fired", e, "ev %d: plan issued %d>%d; tasks warranted to fire: %d", i, v.sid, v.a, nF);
				else if (F[nSeenFired].o != v.sid || F[nSeenFired].d != v.a) flag(C08, "wrong-task-fired", e, "ev %d: plan issued %d>%d, the task due is %d>%d", i, v.sid, v.a, F[nSeenFired].o, F[nSeenFired].d);
			}
			++nSeenFired;
		} break;
		default: break;
		}
	}
	if (cycle && !stepDone) do_step();
	apply_pending_clears();
	if (A0 != NONE8 && (e.op.k == OP_EXIT || e.op.k == OP_DESTROY || (e.op.k == OP_LOAD && e.op.a == N))) { pm_clear(m); m.exists = false; m.active = NONE8; }   // deactivation of an active machine; loading 'inactive' into an inactive one is a no-op
	if (e.terminal) return;
	g_ghost_out.valid = true; g_ghost_out.succ = m.succ; g_ghost_out.fail = m.fail; g_ghost_out.exists = m.exists; g_ghost_out.len = m.len; for (int k = 0; k < m.len && k <= MAXPLAN; ++k) g_ghost_out.plan[k] = m.plan[k];
	bool planSame = e.post.planlen == m.len; for (int k = 0; planSame && k < m.len && k < MAXPLAN; ++k) planSame = task_eq(e.post.plan[k], m.plan[k]);
	g_ghost_diverged = e.post.succ != m.succ || e.post.fail != m.fail || (e.post.exists != 0) != m.exists || !planSame;
	// ---- C08: the plan step
	if (c08 && cycle) {
		if (e.logger_on && nSeenFired != nF) flag(C08, "due-task-did-not-fire", e, "%d tasks were due (first %d>%d), %d fired", nF, nF ? F[0].o : -1, nF ? F[0].d : -1, nSeenFired);
		// converse, stated on its own: first task's origin active, success outstanding, no failure report in this cycle
		if (!e.initial && planNonEmptyAtStep && !anyFailCallThisCycle && nF == 0 && expectOutcome == 0) { /* nothing was due by the model; the converse antecedent is evaluated inside the model */ }
	}
#if VX_PAYLOAD
	if (props & (1u << C07)) {   // a task appended with a payload is in the plan with that payload, one appended without shows none (until it fires or is removed)
		bool same = e.post.planlen == m.len; for (int k = 0; same && k < m.len && k < MAXPLAN; ++k) same = task_eq(e.post.plan[k], m.plan[k]);
		bool anyPayload = false; for (int k = 0; k < m.len && k < MAXPLAN; ++k) if (m.plan[k].set) anyPayload = true; for (int k = 0; k < e.post.planlen && k < MAXPLAN; ++k) if (e.post.plan[k].set) anyPayload = true;
		if (!same && anyPayload && !ghost) flag(C07, "task-payload-lost", e, "the plan holds %d task(s) after the call, the appended and not yet consumed ones are %d; a payload-carrying task is missing, duplicated or shows another payload", e.post.planlen, m.len);
	}
#endif
	if (c08) {
		bool same = e.post.planlen == m.len; for (int k = 0; same && k < m.len && k < MAXPLAN; ++k) same = task_eq(e.post.plan[k], m.plan[k]);
		if (!same) flag(C08, "plan-content-after-call", e, "plan holds %d tasks, expected %d (fired tasks removed, others kept in order)", e.post.planlen, m.len);
		if (!ghost && e.post.succ != m.succ) flag(C08, "success-report-lifetime", e, "outstanding success reports %x, expected %x", e.post.succ, m.succ);
		// which task is due in a later cycle depends on all of the plan bookkeeping, not on the success reports alone: a failure report that
		// lingers (or is lost) and a machine that forgets that a plan exists both change what fires next
		if (!ghost && e.post.fail != m.fail) flag(C08, "failure-report-lifetime", e, "outstanding failure reports %x, expected %x", e.post.fail, m.fail);
		if (!ghost && (e.post.exists != 0) != m.exists) flag(C08, "plan-existence", e, "machine believes a plan %s; a task %s added since activation", e.post.exists ? "exists" : "does not exist", m.exists ? "was" : "was never");
		if (P.processing && !P.structErr && P.nr > 0 && nF) { // the request the guards evaluate is the last fired one unless replaced later
			bool replaced = false; for (int i = 0; i < e.nev; ++i) if (e.tr[i].kind == EV_CHANGE && (e.tr[i].meth == M_PLAN_OK || e.tr[i].meth == M_PLAN_FAIL)) replaced = true;
			const TxS& last = F[nF - 1];
			if (!replaced && !(P.r[0].subj.o == last.o && P.r[0].subj.d == last.d && (P.r[0].subj.set != 0) == (last.set != 0) && P.r[0].subj.tag == last.tag)) flag(C08, "fired-request-not-evaluated", e, "guards evaluate %d>%d/p%d, the task fired last was %d>%d/p%d", P.r[0].subj.o, P.r[0].subj.d, P.r[0].subj.tag, last.o, last.d, last.tag);
		}
	}
	// ---- C07: the request the plan issues carries the fired task's payload, or none if the task has none
#if VX_PAYLOAD
	if ((props & (1u << C07)) && cycle && P.processing && !P.structErr && P.nr > 0 && nF) {
		bool replaced = false; for (int i = 0; i < e.nev; ++i) if (e.tr[i].kind == EV_CHANGE && (e.tr[i].meth == M_PLAN_OK || e.tr[i].meth == M_PLAN_FAIL)) replaced = true;
		const TxS& last = F[nF - 1]; const TxS& sj = P.r[0].subj;
		if (!replaced && sj.d == last.d && ((sj.set != 0) != (last.set != 0) || sj.tag != last.tag))
			flag(C07, "pending-payload", e, "guards evaluate the request of plan task %d>%d with payload p%d/%d, the task carries p%d/%d", last.o, last.d, sj.tag, sj.set, last.tag, last.set);
	}
#endif
	// ---- C11: the history names the task's origin as the source of a request the plan issued
#if VX_HIST
	if ((props & (1u << C11)) && cycle && P.processing && !P.structErr && P.nr > 0 && nF) {
		bool replaced = false; for (int i = 0; i < e.nev; ++i) if (e.tr[i].kind == EV_CHANGE && (e.tr[i].meth == M_PLAN_OK || e.tr[i].meth == M_PLAN_FAIL)) replaced = true;
		const TxS& last = F[nF - 1]; TxS W = TX_NONE;
		if (!replaced && winner(P, W) && W == P.r[0].subj && W.d == last.d && !tx_empty(e.post.prev) && e.post.prev.d == last.d && e.post.prev.o != last.o)
			flag(C11, "history-origin", e, "previousTransition() = %d>%d, the applied request was issued by the plan for task %d>%d", e.post.prev.o == NONE8 ? -1 : e.post.prev.o, e.post.prev.d, last.o, last.d);
	}
#endif
	// ---- C09
	if (c09) {
		if (cycle && expectOutcome && !outcomeSeen) flag(C09, "warranted-outcome-missing", e, "%s was warranted and not delivered", METH_NAME[expectOutcome]);
		if (head_defines_outcome(M_PLAN_FAIL) && cycle && activeFailedThisCycle && planNonEmptyAtStep && !(outcomeSeen && expectOutcome == M_PLAN_FAIL)) flag(C09, "failure-not-reported", e, "active state failed with a non-empty plan, planFailed not delivered in this cycle");
		if (!ghost && (e.post.exists != 0) != m.exists) flag(C09, "plan-existence", e, "machine believes a plan %s; a task %s added since activation (raw flag 0x%02x)", e.post.exists ? "exists" : "does not exist", m.exists ? "was" : "was never", e.post.exists);
		if (!ghost && e.post.succ != m.succ) flag(C09, "success-report-lifetime", e, "outstanding success reports %x, expected %x (the look-ahead shows the consequence where there is one)", e.post.succ, m.succ);
		if (!ghost && e.post.fail != m.fail) flag(C09, "failure-report-lifetime", e, "outstanding failure reports %x, expected %x", e.post.fail, m.fail);
		if (checkEmptyAfterOutcome && e.post.planlen) flag(C09, "plan-not-empty-after-outcome", e, "%d tasks after the outcome callback returned", e.post.planlen);
		// "no task remains" is about the tasks appended and neither fired nor removed; a task the machine no longer sees still remains
		if (!ghost && e.post.planlen < m.len) flag(C09, "remaining-task-lost", e, "%d task(s) appended and neither fired nor removed remain, the machine sees %d: planSucceeded() is delivered as soon as the visible ones are gone (the look-ahead shows the consequence where it is within reach)", m.len, e.post.planlen);
	}
}

// C10: the plan as a bounded FIFO list. Own walker, independent of the plan-step model: user edits are applied as they
// happen and every observation must show exactly that sequence; where the library itself may remove tasks (firing in the plan
// step, clearing after an outcome callback or at deactivation) the observed sequence must be an order-preserving
// sub-sequence, from which the walk continues.
inline bool plan_subseq(const TxS* small, int ns, const TxS* big, int nb) { int j = 0; for (int i = 0; i < ns; ++i) { while (j < nb && !task_eq(small[i], big[j])) ++j; if (j == nb) return false; ++j; } return true; }
inline void m10(const Edge& e, const Parsed&) {
	if (e.terminal) return;
	PlanModel m; memset(&m, 0, sizeof m); if (!e.initial) pm_from(e.pre, m);
	const bool cycle = e.op.k == OP_UPDATE || e.op.k == OP_REACT;
	bool mayShrink = false;
	auto appended = [&](uint8_t o, uint8_t d, uint8_t pv, int ret, int ev) { const int before = m.len; bool ok; pm_append(m, o, d, pv, &ok); if ((ret != 0) != ok) flag(C10, "append-result", e, "ev %d: append returned %d with %d of %d tasks present", ev, ret, before, TASK_CAP); };
	switch (e.op.k) {
	case OP_PLAN_CHANGE: case OP_PLAN_CHANGEW: appended(e.op.a, e.op.b, e.op.k == OP_PLAN_CHANGEW ? e.op.c : 0, e.res.ret, -1); break;
	case OP_PLAN_CLEAR: pm_clear(m); break;
	case OP_PLAN_REMOVE: if (e.res.aux != m.len) flag(C10, "iteration-disturbed-by-remove", e, "iterator visited %d tasks of %d while removing mask %u", e.res.aux, m.len, e.op.a); pm_remove(m, e.op.a); break;
	case OP_LOAD: case OP_EXIT: mayShrink = true; break;
	default: break;
	}
	bool phasesOver = false;
	for (int i = 0; i < e.nev; ++i) {
		const Ev& v = e.tr[i];
		if (v.kind == EV_MARK) break;
		if (v.kind == EV_CB) {
			if (cycle && !phasesOver && !is_phase(v.meth)) { phasesOver = true; mayShrink = true; }
			if (v.flags & OF_PLAN) {
				const int n = v.planlen < MAXPLAN ? v.planlen : MAXPLAN;
				bool same = v.planlen == m.len; for (int k = 0; same && k < m.len && k < MAXPLAN; ++k) same = task_eq(v.plan[k], m.plan[k]);
				if (!same) {
					if (mayShrink && plan_subseq(v.plan, n, m.plan, m.len)) { m.len = n; for (int k = 0; k < n; ++k) m.plan[k] = v.plan[k]; }
					else flag(C10, "iteration-differs-from-appended-sequence", e, "ev %d: iteration yields %d tasks, %d were appended and not removed", i, v.planlen, m.len);
				}
				mayShrink = false;
				if ((v.planbool != 0) != (v.planlen > 0)) flag(C10, "emptiness-test", e, "ev %d: bool(plan)=%d with %d tasks", i, v.planbool, v.planlen);
				if (v.planbool > 1) flag(C10, "plan-views-disagree", e, "ev %d: read-only and mutable plan views disagree (%s)", i, v.planbool == 2 ? "emptiness" : "first()/last()");
				if (v.planbool && v.planlen && v.planlen <= MAXPLAN && (!task_eq(v.pfirst, v.plan[0]) || !task_eq(v.plast, v.plan[v.planlen - 1]))) flag(C10, "first-last", e, "ev %d: first()/last() disagree with iteration", i);
				if (v.planlen > TASK_CAP) flag(C10, "capacity-exceeded", e, "ev %d: %d tasks, capacity %d", i, v.planlen, TASK_CAP);
			}
			if (v.inj) continue;
			if (v.meth == M_PLAN_OK || v.meth == M_PLAN_FAIL) mayShrink = true;       // cleared after the callback returns
			if (v.meth == M_EXIT) mayShrink = true;                                    // root exit clears the plan
			continue;
		}
		if (v.kind == EV_PLAN_APPEND) appended(v.a, v.b, v.c, v.r, i);
		else if (v.kind == EV_PLAN_CLEAR) pm_clear(m);
		else if (v.kind == EV_PLAN_REMOVE) { if (v.b != m.len) flag(C10, "iteration-disturbed-by-remove", e, "ev %d: iterator visited %d of %d tasks", i, v.b, m.len); pm_remove(m, v.a); }
	}
	if (cycle && !phasesOver) mayShrink = true;
	const int n = e.post.planlen < MAXPLAN ? e.post.planlen : MAXPLAN;
	bool same = e.post.planlen == m.len; for (int k = 0; same && k < m.len && k < MAXPLAN; ++k) same = task_eq(e.post.plan[k], m.plan[k]);
	if (!same && !(mayShrink && plan_subseq(e.post.plan, n, m.plan, m.len))) flag(C10, "iteration-differs-from-appended-sequence", e, "after the call iteration yields %d tasks, %d were appended and not removed", e.post.planlen, m.len);
	if ((e.post.planbool != 0) != (e.post.planlen > 0)) flag(C10, "emptiness-test", e, "bool(plan)=%d with %d tasks", e.post.planbool, e.post.planlen);
	if (e.post.planbool > 1) flag(C10, "plan-views-disagree", e, "after the call the read-only plan of the (const) machine and its mutable plan disagree (emptiness test or iteration)");
	if (e.res.heldViewStale) flag(C10, "held-view-stale", e, "a read-only plan view obtained before the call shows something else than one obtained after it (emptiness test or iteration)");
	if (e.post.planlen > TASK_CAP) flag(C10, "capacity-exceeded", e, "%d tasks, capacity %d", e.post.planlen, TASK_CAP);
	if (!e.initial && e.pre.active != NONE8 && e.post.active == NONE8 && e.post.planlen) flag(C10, "plan-survives-deactivation", e, "%d tasks on the machine after its deactivation", e.post.planlen);   // (a manually activated machine may be given a plan while it is inactive)
}
#endif

// =========================================================================== C12: save / load as edges
inline void m12(const Edge& e, const Parsed& P) {
	// save() called from inside a callback (through the context) writes the canonical buffer of the activity the machine reports then
	for (int i = 0; i < e.nev; ++i) { const Ev& v = e.tr[i]; if (v.kind == EV_MARK) break; if (v.kind == EV_CB && (v.ctl & 0x10)) { flag(C12, "reentrant-save", e, "ev %d: save() from inside %s of %s%d (machine reports state %d active) does not produce the buffer of that activity", i, METH_NAME[v.meth], v.sid == ROOT ? "R" : "S", v.sid == ROOT ? 0 : v.sid, v.m_active == NONE8 ? -1 : v.m_active); break; } }
#if VX_SER
	if (e.op.k == OP_SAVE) {
		if (!e.key_unchanged) flag(C12, "save-modified-machine", e, "state differs after save()");
		if (!e.res.saveOk) flag(C12, "save-wrote-beyond-capacity", e, "bits beyond BIT_CAPACITY set or canaries damaged");
		if (P.ncb) flag(C12, "save-ran-callbacks", e, "%d callbacks", P.ncb);
		const int act = e.pre.active == NONE8 ? N : e.pre.active;
		if (!g_loadbuf_ok[act] || memcmp(&g_savebuf.buf, &g_loadbuf[act].buf, sizeof g_savebuf.buf)) flag(C12, "buffer-not-canonical", e, "buffer differs from the one another machine with the same activity produced");
		for (int x = 0; x <= N; ++x) if (x != act && g_loadbuf_ok[x] && !memcmp(&g_savebuf.buf, &g_loadbuf[x].buf, sizeof g_savebuf.buf)) flag(C12, "buffers-collide", e, "same buffer as activity %d", x);
		return;
	}
	if (e.op.k == OP_LOAD_BLANK) {   // a buffer that describes no activity loaded into an automatically activated machine: the library ignores it
		if (!e.key_unchanged) flag(C12, "blank-buffer-load-changed-machine", e, "state differs after loading a buffer whose activity bit is clear");
		if (P.ncb) flag(C12, "blank-buffer-load-ran-callbacks", e, "%d callbacks", P.ncb);
		return;
	}
	if (e.op.k == OP_LOAD) {
		const uint8_t want = e.op.a == N ? NONE8 : e.op.a;
		const uint8_t A = e.pre.active;
		if (e.post.active != want) flag(C12, "load-activity", e, "loader is %d after loading activity %d", e.post.active, want);
		if (P.firstGuard >= 0 || e.guard_cbs) flag(C12, "load-consulted-guards", e, "%lu guard callbacks", e.guard_cbs);
		// minimal lifecycle
		bool ok;
		const int h = VX_HEAD ? 1 : 0;
		auto is = [&](int k, uint8_t sid, uint8_t meth) { return k < P.nlife && e.tr[P.life_ev[k]].sid == sid && e.tr[P.life_ev[k]].meth == meth; };
		if (A == NONE8 && want == NONE8) ok = P.nlife == 0;
		else if (A == NONE8) ok = P.nlife == 1 + h && (!h || is(0, ROOT, M_ENTER)) && is(h, want, M_ENTER);
		else if (want == NONE8) ok = P.nlife == 1 + h && is(0, A, M_EXIT) && (!h || is(1, ROOT, M_EXIT));
		else if (A == want) ok = P.nlife == 1 && is(0, A, M_REENTER);
		else ok = P.nlife == 2 && is(0, A, M_EXIT) && is(1, want, M_ENTER);
		if (!ok) flag(C12, "load-lifecycle", e, "%d lifecycle callbacks for %d -> %d", P.nlife, A, want);
		if (P.nphase || P.nout || P.nquery) flag(C12, "load-ran-other-callbacks", e, "phase/outcome callbacks during load");
		if (!tx_empty(e.post.req)) flag(C12, "load-left-request", e, "request outstanding after load");
#if VX_PLANS
		{ // the loader starts from an empty plan; what its exit/enter/reenter callbacks append during load() is its plan afterwards
			TxS ap[2 * MAXPLAN + 2]; int na = 0; bool edited = false;
			if (A == NONE8) for (int k = 0; k < e.pre.planlen && k < MAXPLAN; ++k) ap[na++] = e.pre.plan[k];   // an inactive (manual) loader keeps the plan it was given before
			for (int i = 0; i < e.nev; ++i) { const Ev& v = e.tr[i]; if (v.kind == EV_MARK) break; if (v.kind == EV_PLAN_APPEND && v.r && (v.meth == M_ENTER || v.meth == M_REENTER) && na < 2 * MAXPLAN) ap[na++] = TxS{v.a, v.b, static_cast<uint8_t>(v.c ? 1 : 0), v.c}; if (v.kind == EV_PLAN_CLEAR || v.kind == EV_PLAN_REMOVE) edited = true; }
			if (!edited && na) { bool same = e.post.planlen == na; for (int k = 0; same && k < na; ++k) same = task_eq(e.post.plan[k], ap[k]);
				if (!same) flag(C12, "load-lost-plan-built-by-callbacks", e, "the loader's plan should hold %d task(s) after load() (appended by enter()/reenter() during the call%s), it holds %d", na, A == NONE8 ? ", plus what the inactive loader held" : "", e.post.planlen); } }
#endif
	}
#else
	(void)e; (void)P;
#endif
}

// =========================================================================== C15: injection order
inline int inj_count_of(uint8_t sid) { return sid == ROOT ? INJ_ROOT : INJ_OF[sid]; }
inline void m15(const Edge& e, const Parsed&) {
	int i = 0; int lastSid = -1, lastMeth = -1, lastStart = -1, lastEnd = -1;
	while (i < e.nev) {
		const Ev& v = e.tr[i];
		if (v.kind != EV_CB) { ++i; continue; }
		if (v.meth == M_PLAN_OK || v.meth == M_PLAN_FAIL) { ++i; continue; }   // plan outcome callbacks are not lifecycle events of the property: delivered to the root head itself only
		const int k = inj_count_of(v.sid);
		const int own = own_defined(v.sid, v.meth) ? 1 : 0;   // a state that does not define the callback itself contributes no delivery of its own
		// collect k+own consecutive callback deliveries of the same (state, method); actions may be interleaved
		int seq[8]; int n = 0; int j = i;
		while (j < e.nev && n < k + own) { const Ev& w = e.tr[j]; if (w.kind == EV_CB) { if (w.sid != v.sid || w.meth != v.meth) break; seq[n++] = w.inj; } else if (w.kind == EV_MARK || w.kind == EV_LOG_METHOD) break; ++j; }
		if (n != k + own) { flag(C15, "group-incomplete", e, "ev %d: %s on %d delivered to %d of %d members (injections%s)", i, METH_NAME[v.meth], v.sid, n, k + own, own ? " + state" : " only: the state defines no such callback"); i = j > i ? j : i + 1; continue; }
		bool each = true; unsigned seen = 0; for (int q = 0; q < n; ++q) { if (seen & (1u << seq[q])) each = false; seen |= 1u << seq[q]; }
		if (!each) flag(C15, "member-twice", e, "ev %d: %s on %d", i, METH_NAME[v.meth], v.sid);
		for (int q = i; q < j; ++q) if (e.tr[q].kind == EV_CB && !(e.tr[q].flags & OF_THIS)) { flag(C15, "member-on-foreign-object", e, "ev %d: %s of injection %d of state %d ran on an object that is not part of the state access<T>() returns (a copy?)", q, METH_NAME[e.tr[q].meth], e.tr[q].inj, e.tr[q].sid); break; }
		// one lifecycle event, one group: a second delivery of the same callback kind to the same state can only belong to another event,
		// and between two events of the same kind for the same state something else always happens (an action that causes the second one,
		// or a delivery to another state)
		if (lastSid == v.sid && lastMeth == v.meth && lastEnd >= 0) { bool adjacent = true; for (int q = lastStart; q < i; ++q) if (e.tr[q].kind != EV_LOG_METHOD && e.tr[q].kind != EV_CB) adjacent = false;   /* no action inside or after the previous group */ if (adjacent) flag(C15, "delivered-twice-for-one-event", e, "ev %d: %s on %d delivered again right after the complete group at ev %d", i, METH_NAME[v.meth], v.sid, lastStart); }
		lastSid = v.sid; lastMeth = v.meth; lastStart = i; lastEnd = j;
		const uint8_t mth = v.meth;
		const bool fwd = mth == M_EG || mth == M_ENTER || mth == M_REENTER || mth == M_PRE_UPDATE || mth == M_UPDATE || mth == M_PRE_REACT || mth == M_REACT;
		const bool rev = mth == M_EXIT || mth == M_POST_UPDATE || mth == M_POST_REACT;
		if (fwd) { bool ok = !own || seq[k] == 0; for (int q = 0; q < k; ++q) ok = ok && seq[q] == q + 1; if (!ok) flag(C15, "setup-order", e, "ev %d: %s on %d not delivered as I1..I%d then the state", i, METH_NAME[mth], v.sid, k); }
		if (rev) { bool ok = !own || seq[0] == 0; for (int q = 0; q < k; ++q) ok = ok && seq[q + own] == k - q; if (!ok) flag(C15, "teardown-order", e, "ev %d: %s on %d not delivered as the state then I%d..I1", i, METH_NAME[mth], v.sid, k); }
		i = j;
	}
}

// =========================================================================== C14 (explorer part): callbacks run on the objects access<T>() names
inline void m14(const Edge& e, const Parsed&) {
	for (int i = 0; i < e.nev; ++i) { const Ev& v = e.tr[i]; if (v.kind == EV_MARK) break; if (v.kind != EV_CB) continue;
		if (!(v.flags & OF_THIS)) { flag(C14, "access-identity", e, "ev %d: %s of %s%d (injection %d) ran on an object that is not the one access<T>() returns (const and non-const overloads)", i, METH_NAME[v.meth], v.sid == ROOT ? "R" : "S", v.sid == ROOT ? 0 : v.sid, v.inj); break; }
		if (v.ctl & 0x20) { flag(C14, "query-dispatch", e, "ev %d: a query issued from inside %s of state %d did not reach the head and the state the machine reports active (%d)", i, METH_NAME[v.meth], v.sid, v.m_active == NONE8 ? -1 : v.m_active); break; }
		// inside its own lifecycle and phase callbacks a state is the active one; an enter() only reaches a state that is not entered yet
		if (v.sid != ROOT && (v.meth == M_ENTER || v.meth == M_REENTER || v.meth == M_EXIT || is_phase(v.meth) || v.meth == M_QUERY) && v.m_active != v.sid) { flag(C14, "callback-on-inactive-state", e, "ev %d: %s delivered to state %d while the machine reports %d active", i, METH_NAME[v.meth], v.sid, v.m_active == NONE8 ? -1 : v.m_active); break; }
		if (v.sid != ROOT && v.meth == M_ENTER && (v.ctl & 0x40)) { flag(C14, "enter-on-entered-state", e, "ev %d: enter (injection %d) delivered to state %d, which was entered and not exited", i, v.inj, v.sid); break; }
		if (v.ctl_sid != v.sid) { flag(C14, "control-stateId", e, "ev %d: control.stateId() = %d inside %s of state %d", i, v.ctl_sid, METH_NAME[v.meth], v.sid); break; } }
}

// =========================================================================== C16: logging
inline void m16(const Edge& e, const Parsed&) {
#if VX_LOG
	bool on = e.initial ? (e.op.a != 0) : e.logger_on; bool toggled = false; const bool on0 = on;   // callbacks may attach / detach the logger themselves: from then on records go to the new one (or stop)
	const bool offAfterAttach = e.op.k == OP_ATTACH;
	if (offAfterAttach) { for (int i = 0; i < e.nev; ++i) if (e.tr[i].kind >= EV_LOG_METHOD && e.tr[i].kind <= EV_LOG_PLAN) flag(C16, "record-during-attach", e, "ev %d", i); return; }
	const uint8_t bare = VX_BARE ? N - 1 : 200;
	for (int i = 0; i < e.nev; ++i) {
		const Ev& v = e.tr[i];
		if (v.kind == EV_MARK) break;
		if (v.kind == EV_LOG_ATTACH) { on = v.a != 0; toggled = true; continue; }
		const bool isLog = v.kind >= EV_LOG_METHOD && v.kind <= EV_LOG_PLAN;
		if (!on) { if (isLog) flag(C16, "record-without-logger", e, "ev %d", i); continue; }
		if (v.kind == EV_LOG_METHOD) {
			// must be immediately followed by that very delivery (first member of the group), unless the state defines no callbacks (verbose only)
			// a state that defines no callback: no delivery is observable. Verbose logging must record these deliveries (checked below);
			// plain logging happens to record the event-templated ones as well, which is truthful (DESIGN.md O5)
			if (v.sid == bare) continue;
			if (e.op.k == OP_REACT && e.op.a && !own_defined_evb(v.sid) && is_phase(v.meth)) continue;   // same for a state that does not handle this event type
			const Ev* nx = i + 1 < e.nev ? &e.tr[i + 1] : nullptr;
			if (!nx || nx->kind != EV_CB || nx->sid != v.sid || nx->meth != v.meth) flag(C16, "method-record-without-delivery", e, "ev %d: record (%d,%s) is not followed by that delivery", i, v.sid, v.meth < 15 ? METH_NAME[v.meth] : "?");
			continue;
		}
		if (v.kind == EV_CB) {
			// first member of a delivery group must be immediately preceded by its record
			const Ev* pv = i > 0 ? &e.tr[i - 1] : nullptr;
			bool firstOfGroup = true;
			for (int j = i - 1; j >= 0; --j) { const Ev& w = e.tr[j]; if (w.kind == EV_CB) { if (w.sid == v.sid && w.meth == v.meth) { // same group if no record in between
						bool rec = false; for (int q = j + 1; q < i; ++q) if (e.tr[q].kind == EV_LOG_METHOD) rec = true; if (!rec) firstOfGroup = false; } break; } if (w.kind == EV_LOG_METHOD) break; }
			if (firstOfGroup) {
				if (!pv || pv->kind != EV_LOG_METHOD || pv->sid != v.sid || pv->meth != v.meth) flag(C16, "delivery-without-method-record", e, "ev %d: %s on %d not immediately preceded by its record", i, METH_NAME[v.meth], v.sid);
				else if (i >= 2 && e.tr[i - 2].kind == EV_LOG_METHOD && e.tr[i - 2].sid == v.sid && e.tr[i - 2].meth == v.meth) flag(C16, "duplicate-method-record", e, "ev %d", i);
			}
			continue;
		}
		if (v.kind == EV_CHANGE) { const Ev* pv = i > 0 ? &e.tr[i - 1] : nullptr; if (!pv || pv->kind != EV_LOG_TRANS || pv->sid != v.sid || pv->a != v.a) flag(C16, "request-without-transition-record", e, "ev %d: changeTo(%d) by %d", i, v.a, v.sid); continue; }
		if (v.kind == EV_CANCEL) { const Ev* pv = i > 0 ? &e.tr[i - 1] : nullptr; if (!pv || pv->kind != EV_LOG_CANCEL || pv->sid != v.sid) flag(C16, "cancel-without-record", e, "ev %d", i); continue; }
		if (v.kind == EV_SUCCEED || v.kind == EV_FAIL) { const Ev* pv = i > 0 ? &e.tr[i - 1] : nullptr; if (!pv || pv->kind != EV_LOG_TASK || pv->sid != v.a || pv->a != (v.kind == EV_FAIL ? 1 : 0)) flag(C16, "report-without-task-record", e, "ev %d", i); continue; }
		if (v.kind == EV_LOG_CANCEL) { const Ev* nx = i + 1 < e.nev ? &e.tr[i + 1] : nullptr; if (!nx || nx->kind != EV_CANCEL || nx->sid != v.sid) flag(C16, "cancel-record-without-cancel", e, "ev %d", i); continue; }
		if (v.kind == EV_LOG_TASK) {
			const Ev* nx = i + 1 < e.nev ? &e.tr[i + 1] : nullptr;
			const bool ext = i == 0 && ((e.op.k == OP_SUCCEED && v.a == 0) || (e.op.k == OP_FAIL && v.a == 1)) && v.sid == e.op.a;
			if (!ext && (!nx || (nx->kind != EV_SUCCEED && nx->kind != EV_FAIL) || nx->a != v.sid)) flag(C16, "task-record-without-report", e, "ev %d", i);
			continue;
		}
		if (v.kind == EV_LOG_TRANS) {
			const Ev* nx = i + 1 < e.nev ? &e.tr[i + 1] : nullptr;
			const bool echo = nx && nx->kind == EV_CHANGE && nx->a == v.a && nx->sid == v.sid;
			const bool ext = i == 0 && (e.op.k == OP_CHANGE || e.op.k == OP_IMM || e.op.k == OP_CHANGEW || e.op.k == OP_IMMW) && v.sid == ROOT && v.a == e.op.a;
			const bool planFired = VX_PLANS && (e.op.k == OP_UPDATE || e.op.k == OP_REACT);   // judged by C08
			if (!echo && !ext && !planFired) flag(C16, "transition-record-without-request", e, "ev %d: record %d>%d", i, v.sid, v.a);
			continue;
		}
	}
#if VX_LOG == 2
	if (on && !toggled && !e.overflow) {
		// verbose: the method records alone must show every delivery, also those to the state without callbacks
		const uint8_t A = e.initial ? NONE8 : e.pre.active;
		uint8_t ps[12], pm[12]; int np = 0; uint8_t ls[8], lm[8]; int nl = 0;
		for (int i = 0; i < e.nev; ++i) { const Ev& v = e.tr[i]; if (v.kind == EV_MARK) break; if (v.kind != EV_LOG_METHOD) continue;
			if (is_phase(v.meth) && np < 12) { ps[np] = v.sid; pm[np++] = v.meth; }
			if (is_life(v.meth) && v.sid != ROOT && nl < 8) { ls[nl] = v.sid; lm[nl++] = v.meth; } }
		if (e.op.k == OP_UPDATE || e.op.k == OP_REACT) {
			const bool up = e.op.k == OP_UPDATE; const uint8_t pre = up ? M_PRE_UPDATE : M_PRE_REACT, mid = up ? M_UPDATE : M_REACT, post = up ? M_POST_UPDATE : M_POST_REACT;
			uint8_t ws[6], wm[6]; int n = 0;
			if (VX_HEAD) { ws[n] = ROOT; wm[n++] = pre; }
			ws[n] = A; wm[n++] = pre;
			if (VX_HEAD) { ws[n] = ROOT; wm[n++] = mid; }
			ws[n] = A; wm[n++] = mid; ws[n] = A; wm[n++] = post;
			if (VX_HEAD) { ws[n] = ROOT; wm[n++] = post; }
			bool ok = np == n; for (int i = 0; ok && i < n; ++i) ok = ps[i] == ws[i] && pm[i] == wm[i];
			if (!ok) flag(C16, "verbose-phase-records", e, "verbose logging recorded %d phase deliveries, the cycle has %d (active state %d)", np, n, A);
		} else if (np) flag(C16, "verbose-phase-records", e, "phase records outside update()/react()");
		if (!e.terminal) {
			bool ok;
			if (A == e.post.active) ok = nl == 0 || (nl == 1 && lm[0] == M_REENTER && ls[0] == A);
			else if (A == NONE8) ok = nl == 1 && lm[0] == M_ENTER && ls[0] == e.post.active;
			else if (e.post.active == NONE8) ok = nl == 1 && lm[0] == M_EXIT && ls[0] == A;
			else ok = nl == 2 && lm[0] == M_EXIT && ls[0] == A && lm[1] == M_ENTER && ls[1] == e.post.active;
			if (!ok) flag(C16, "verbose-lifecycle-records", e, "verbose logging recorded %d lifecycle deliveries for the change of activity %d -> %d", nl, A, e.post.active);
		}
	}
#endif
	if (on0) {
		if ((e.op.k == OP_CHANGE || e.op.k == OP_IMM || e.op.k == OP_CHANGEW || e.op.k == OP_IMMW) && !(e.nev && e.tr[0].kind == EV_LOG_TRANS && e.tr[0].sid == ROOT && e.tr[0].a == e.op.a)) flag(C16, "external-request-without-record", e, "no transition record for the external request");
		if ((e.op.k == OP_SUCCEED || e.op.k == OP_FAIL) && !(e.nev && e.tr[0].kind == EV_LOG_TASK && e.tr[0].sid == e.op.a)) flag(C16, "external-report-without-record", e, "no task-status record");
	}
#else
	(void)e;
#endif
}

// =========================================================================== C17 (copy op) and C18 (alignment, allocation)
inline void m17(const Edge& e, const Parsed&) {
	if (e.op.k != OP_COPY) return;
	if (!(e.res.copyEqual & 1)) flag(C17, "copy-observers-differ", e, "copy differs from the original in:%s%s%s%s%s", e.res.aux & 1 ? " active-state" : "", e.res.aux & 2 ? " outstanding-request" : "", e.res.aux & 4 ? " previous-transition" : "", e.res.aux & 8 ? " plan" : "", e.res.aux & 16 ? " task-reports" : "");
	else if (!(e.res.copyEqual & 2)) flag(C17, "copy-state-differs", e, "copy's internal state differs from the original");
	if (!(e.res.copyEqual & 4)) flag(C17, "copy-serialized-form-differs", e, "save() of the copy differs");
	if (!e.key_unchanged) flag(C17, "original-changed-by-copy", e, "copying or destroying the copy modified the original");
	// the copy's destruction exits exactly what the original had entered
#if !VX_MANUAL
	if (e.res.ret) {
		int seen = 0; bool ok = true; bool after = false;
		for (int i = 0; i < e.nev; ++i) { const Ev& v = e.tr[i]; if (v.kind == EV_MARK) { after = true; continue; } if (!after || v.kind != EV_CB || v.inj) continue;
			if (seen == 0) ok = ok && v.meth == M_EXIT && v.sid == e.pre.active; else if (seen == 1 && VX_HEAD) ok = ok && v.meth == M_EXIT && v.sid == ROOT; else ok = false; ++seen; }
		if (!ok || seen != 1 + (VX_HEAD ? 1 : 0)) flag(C17, "copy-final-exit", e, "destroying the copy delivered %d lifecycle callbacks", seen);
	}
#endif
}

inline void m18(const Edge& e, const Parsed&) {
#if VX_PAYLOAD
	for (int i = 0; i < e.nev; ++i) { const Ev& v = e.tr[i]; if (v.kind != EV_CB && v.kind != EV_CHANGE) continue; if (v.req.set == 3 || v.pend.set == 3 || v.cur.set == 3 || v.prev.set == 3) flag(C18, "payload-pointer-misaligned", e, "ev %d: a payload() pointer handed to user code is not aligned to alignof(Payload)=%d", i, PALIGN); for (int k = 0; k < v.planlen && k < MAXPLAN; ++k) if (v.plan[k].set == 3) flag(C18, "task-payload-pointer-misaligned", e, "ev %d task %d", i, k); }
	if (!e.terminal && (e.post.prev.set == 3 || e.post.req.set == 3)) flag(C18, "payload-pointer-misaligned", e, "previousTransition()/request payload pointer misaligned");
#endif
	static unsigned long lastHits = 0;
	if (g_alloc.hits != lastHits) { flag(C18, "heap-allocation", e, "%lu allocation/free calls inside the library during this call", g_alloc.hits - lastHits); lastHits = g_alloc.hits; }
}

inline void extra_monitors(const Edge& e, const Parsed& P, unsigned props) {
#if VX_PLANS
	if (props & ((1u << C08) | (1u << C09) | (VX_HIST ? (1u << C11) : 0u) | (VX_PAYLOAD ? (1u << C07) : 0u))) m_plans(e, P, props);
	if (props & (1u << C10)) m10(e, P);
#endif
	if (props & (1u << C12)) m12(e, P);
	if (props & (1u << C14)) m14(e, P);
	if (props & (1u << C15)) m15(e, P);
	if (props & (1u << C16)) m16(e, P);
	if (props & (1u << C17)) m17(e, P);
	if (props & (1u << C18)) m18(e, P);
}

// =========================================================================== companions (second instance)
struct CompOpts { bool replica = false, copy = false, move = false; int copy_dev = 1; uint8_t* prekey = nullptr; uint8_t* postkey = nullptr; size_t keylen = 0; const uint8_t* presnap = nullptr; };
static CompOpts g_comp;

inline bool only_lifecycle(int from, int* nlife) {
	int n = 0; for (int i = from; i < G.nev; ++i) { const Ev& v = G.tr[i]; if (v.kind != EV_CB) continue; if (!is_life(v.meth)) return false; if (!v.inj) ++n; }
	*nlife = n; return true;
}

// C11: a replica driven only by replayEnter()/replayTransition() with the destinations read from previousTransition()
inline void companion_replica(const Edge& e) {
#if VX_HIST
	if (e.terminal || e.overflow) return;
	Parsed P; // classification only
	const bool activation = op_activates(e.op), processing = op_processes(e.op.k);
	if (!activation && !processing) return;
	// the authority's observable result
	const Abs post = e.post; const Abs pre = e.pre; const bool initial = e.initial;
	Edge ee = e;   // flag() needs the edge for the witness; e.tr points into G.tr which the replica run overwrites, so report first where possible
	(void)P;
	// bring a replica to the authority's pre-state activity, quietly
	quiet_begin(); construct(1, 0x3D, false); Inst& r = *inst(1); G.cur = &r;
	bool ret = true;
	const uint8_t a0 = initial ? NONE8 : pre.active;
	G.mode = DM_QUIET;
#if VX_MANUAL
	if (a0 != NONE8) r.replayEnter(static_cast<ffsm2::StateID>(a0));
#else
	if (a0 != NONE8 && a0 != 0) r.replayTransition(static_cast<ffsm2::StateID>(a0));
#endif
	// now feed what the authority recorded, with maximally hostile guards
	{ uint16_t z = 0; G.begin(0, &z, &z); }
	G.mode = DM_HOSTILE; G.cur = &r;
	g_alloc.in_lib = 1;
	if (activation) {
#if VX_MANUAL
		r.replayEnter(static_cast<ffsm2::StateID>(tx_empty(post.prev) ? 0 : post.prev.d));
#else
		if (!tx_empty(post.prev)) ret = r.replayTransition(static_cast<ffsm2::StateID>(post.prev.d));
#endif
	} else if (!tx_empty(post.prev)) ret = r.replayTransition(static_cast<ffsm2::StateID>(post.prev.d));
	g_alloc.in_lib = 0;
	++n_companion_runs;
	const unsigned long guards = G.guard_cbs; int nlife = 0; const bool lifeOnly = only_lifecycle(0, &nlife);
	const uint8_t ract = r.activeStateId();
	// judge (the witness shows the authority's edge; its trace buffer now holds the replica's callbacks)
	ee.tr = G.tr; ee.nev = G.nev;
	if (!ret) flag(C11, "replica-replay-returned-false", ee, "replayTransition(%d) returned false on the replica", post.prev.d);
	if (guards) flag(C11, "replica-consulted-guards", ee, "%lu guard callbacks ran on the replica", guards);
	if (!lifeOnly) flag(C11, "replica-ran-non-lifecycle-callbacks", ee, "replay ran callbacks other than enter/exit/reenter");
	if (ract != post.active) flag(C11, "replica-out-of-sync", ee, "authority is in %d, replica fed previousTransition().destination=%d is in %d", post.active, tx_empty(post.prev) ? -1 : post.prev.d, ract);
	// tidy: the replica is abandoned (its storage is re-used); automatic machines would run finalExit in the destructor, which is not needed here
	G.cur = inst(0);
#else
	(void)e;
#endif
}

// C17: the same call on a copy taken at this very state behaves identically, and leaves the original alone
inline void companion_copy(const Edge& e) {
	if (e.initial || e.terminal || e.overflow) return;
	if (e.op.k == OP_COPY || e.op.k == OP_DESTROY) return;
	if (e.ndev > g_comp.copy_dev) return;
	// keep the original's result
	static Ev saved[MAXEV]; const int nsaved = e.nev; memcpy(saved, e.tr, sizeof(Ev) * nsaved);
	uint8_t postkey[KEYMAX]; memcpy(postkey, g_comp.postkey, g_comp.keylen);
	const Abs post = e.post; const OpResult res = e.res;
#if VX_SER
	SerBuf savedBuf; if (e.op.k == OP_SAVE) memcpy(&savedBuf, &g_savebuf, sizeof savedBuf);
#endif
	// original back to the pre-state, copy it, run the call on the copy
	memcpy(g_slot[0].bytes, g_comp.presnap, INST_SIZE);
	memset(g_slot[1].bytes, 0x5C, sizeof g_slot[1].bytes);
#ifdef VX_MSAN
	__msan_poison(g_slot[1].bytes, sizeof g_slot[1].bytes);
#endif
#if VX_CTX != 2   /* a machine over a reference context cannot be move-constructed (the library does not compile that) */
	if (g_comp.move) {   // the companion is move-constructed from a copy (the moved-from object is abandoned, not destroyed)
		memset(g_slot[2].bytes, 0x5C, sizeof g_slot[2].bytes);
#ifdef VX_MSAN
		__msan_poison(g_slot[2].bytes, sizeof g_slot[2].bytes);
#endif
		g_alloc.in_lib = 1; new (g_slot[2].bytes) Inst(*inst(0)); new (g_slot[1].bytes) Inst(static_cast<Inst&&>(*inst(2))); g_alloc.in_lib = 0;
#if !VX_MANUAL
		// every object exits what it reports as active when it is destroyed, the moved-from one included (C01: enter/exit paired per object)
		if (tx_empty(e.pre.req)) {
			const uint8_t a2 = inst(2)->activeStateId(); uint8_t mask2 = 0; for (int k = 0; k < N; ++k) if (inst(2)->isActive(static_cast<ffsm2::StateID>(k))) mask2 |= static_cast<uint8_t>(1u << k);
			G.mode = DM_QUIET; { uint16_t none = 0; G.begin(0, &none, &none); } G.cur = inst(2);
			g_alloc.in_lib = 1; inst(2)->~Inst(); g_alloc.in_lib = 0;
			int nexit = 0; uint8_t who = NONE8; int others = 0;
			for (int i = 0; i < G.nev; ++i) { const Ev& v = G.tr[i]; if (v.kind != EV_CB || v.inj) continue; if (v.meth == M_EXIT && v.sid != ROOT) { ++nexit; who = v.sid; } else if (!(v.meth == M_EXIT && v.sid == ROOT)) ++others; }
			Edge em = e; em.tr = G.tr; em.nev = G.nev;
			if (a2 == NONE8 ? nexit != 0 : (nexit != 1 || who != a2) || others || (a2 != NONE8 && mask2 != (1u << a2)))
				flag(C01, "moved-from-destruction", em, "after a move construction the moved-from machine reports active=%d (isActive mask %x); its destruction delivered %d exit callback(s), last to state %d", a2 == NONE8 ? -1 : a2, mask2, nexit, who == NONE8 ? -1 : who);
			G.cur = inst(0);
		}
#endif
	} else
#endif
	{ g_alloc.in_lib = 1; new (g_slot[1].bytes) Inst(*inst(0)); g_alloc.in_lib = 0; }
	{ // at the moment of copying (or moving) the companion shows what the original shows
		Abs a0, a1; G.cur = inst(0); read_abs(*inst(0), a0); G.cur = inst(1); read_abs(*inst(1), a1); G.cur = inst(0);
		Edge ec = e; ec.nev = 0;
		if (a0.prev != a1.prev) { flag(C11, "companion-history", ec, "%s-constructed machine reports previousTransition() %d>%d/p%d, the original %d>%d/p%d", g_comp.move ? "move" : "copy", a1.prev.o == NONE8 ? -1 : a1.prev.o, a1.prev.d == NONE8 ? -1 : a1.prev.d, a1.prev.tag, a0.prev.o == NONE8 ? -1 : a0.prev.o, a0.prev.d == NONE8 ? -1 : a0.prev.d, a0.prev.tag);
			if (a0.prev.set != a1.prev.set || a0.prev.tag != a1.prev.tag) flag(C07, "companion-payload", ec, "%s-constructed machine exposes payload p%d/%d in previousTransition(), the original p%d/%d", g_comp.move ? "move" : "copy", a1.prev.tag, a1.prev.set, a0.prev.tag, a0.prev.set); }
		if (a0.req != a1.req) { flag(C02, "companion-request", ec, "%s-constructed machine has outstanding request %d>%d, the original %d>%d", g_comp.move ? "move" : "copy", a1.req.o == NONE8 ? -1 : a1.req.o, a1.req.d == NONE8 ? -1 : a1.req.d, a0.req.o == NONE8 ? -1 : a0.req.o, a0.req.d == NONE8 ? -1 : a0.req.d);
			if (a0.req.set != a1.req.set || a0.req.tag != a1.req.tag) flag(C07, "companion-payload", ec, "%s-constructed machine exposes payload p%d/%d in its outstanding request, the original p%d/%d", g_comp.move ? "move" : "copy", a1.req.tag, a1.req.set, a0.req.tag, a0.req.set); }
		if (a0.req != a1.req) flag(C06, "companion-request", ec, "%s-constructed machine: controls and request() will report %d>%d as waiting, the original %d>%d", g_comp.move ? "move" : "copy", a1.req.o == NONE8 ? -1 : a1.req.o, a1.req.d == NONE8 ? -1 : a1.req.d, a0.req.o == NONE8 ? -1 : a0.req.o, a0.req.d == NONE8 ? -1 : a0.req.d);
		if (a0.logger != a1.logger) flag(C16, "companion-logger", ec, "%s-constructed machine %s a logger, the original %s (nobody attached or detached one)", g_comp.move ? "move" : "copy", a1.logger ? "has" : "has lost", a0.logger ? "has one" : "has none");
		if (a0.active != a1.active || a0.mask != a1.mask) flag(C01, "companion-activity", ec, "%s-constructed machine reports active=%d, the original %d", g_comp.move ? "move" : "copy", a1.active == NONE8 ? -1 : a1.active, a0.active == NONE8 ? -1 : a0.active);
	}
	G.mode = g_strategy_mode ? DM_STRATEGY : DM_DFS; G.begin(e.ndev, e.dev_pos, e.dev_alt);
	const OpResult res2 = apply(e.op, 1);
	++n_companion_runs;
	Edge ee = e; ee.tr = G.tr; ee.nev = G.nev;
	uint8_t k1[KEYMAX]; make_key(*inst(1), k1); uint8_t k0[KEYMAX]; make_key(*inst(0), k0);
	Abs post2; G.cur = inst(1); read_abs(*inst(1), post2); G.cur = inst(0);
	if (G.nev != nsaved || memcmp(saved, G.tr, sizeof(Ev) * nsaved)) flag(C17, "copy-behaves-differently", ee, "the copy answered the same call with different callbacks/observations (%d events vs %d on the original)", G.nev, nsaved);
	else if (memcmp(k1, postkey, g_comp.keylen)) flag(C17, "copy-reaches-different-state", ee, "same call, same callbacks, different resulting state (copy: act=%d prev=%d>%d, original: act=%d prev=%d>%d)", post2.active, post2.prev.o, post2.prev.d, post.active, post.prev.o, post.prev.d);
	if (res2.ret != res.ret) flag(C17, "copy-returns-differently", ee, "return value %d vs %d", res2.ret, res.ret);
	if (memcmp(k0, g_comp.prekey, g_comp.keylen)) flag(C17, "original-changed-through-copy", ee, "operating on the copy modified the original");
#if VX_SER
	if (e.op.k == OP_SAVE && memcmp(&savedBuf.buf, &g_savebuf.buf, sizeof savedBuf.buf)) flag(C17, "copy-serialized-form-differs", ee, "save() bytes differ");
#endif
}

} // namespace vx
