// seqx_bitstream.cpp -- C13: bit stream against a bit-vector model (DESIGN.md 5, C13).
//  (i)   one field at every cursor 0..254 x width 1..32 x value alphabet x three prefix fillings (capacity 255)
//  (ii)  all pairs of consecutive fields at the 8 byte offsets; all write sequences to closure for small capacities
//  (iii) every capacity 1..255: BYTE_COUNT, complete fills
//  (iv)  bitWidth() for every 32-bit argument; N-1 < 2^bitWidth(N) for N = 1..255
#define FFSM2_ENABLE_SERIALIZATION
#ifdef VX_DEV_HEADER
#include <ffsm2/machine_dev.hpp>
#else
#include <ffsm2/machine.hpp>
#endif
#include "seqx_common.hpp"
using namespace ffsm2::detail;
using namespace sx;

template <int CAP> struct BS {
	using Buf = StreamBufferT<CAP>; using Wr = BitWriteStreamT<CAP>; using Rd = BitReadStreamT<CAP>;
	template <int N> static void w1(Wr& s, uint32_t v) { s.template write<N>(static_cast<ffsm2::UBitWidth<N>>(v)); }
	template <int N> static uint32_t r1(Rd& s) { return s.template read<N>(); }
	static void wr(Wr& s, int n, uint32_t v) { switch (n) {
#define X(N) case N: w1<N>(s, v); break;
		X(1)X(2)X(3)X(4)X(5)X(6)X(7)X(8)X(9)X(10)X(11)X(12)X(13)X(14)X(15)X(16)X(17)X(18)X(19)X(20)X(21)X(22)X(23)X(24)X(25)X(26)X(27)X(28)X(29)X(30)X(31)X(32)
#undef X
	} }
	static uint32_t rd(Rd& s, int n) { switch (n) {
#define X(N) case N: return r1<N>(s);
		X(1)X(2)X(3)X(4)X(5)X(6)X(7)X(8)X(9)X(10)X(11)X(12)X(13)X(14)X(15)X(16)X(17)X(18)X(19)X(20)X(21)X(22)X(23)X(24)X(25)X(26)X(27)X(28)X(29)X(30)X(31)X(32)
#undef X
	} return 0; }
};
using B255 = BS<255>;
static constexpr int NBYTES = 32;

struct Model { uint8_t bytes[NBYTES]; int cursor; void clear() { memset(bytes, 0, sizeof bytes); cursor = 0; }
	void write(int w, uint32_t v) { for (int i = 0; i < w; ++i) { const int b = cursor + i; if ((v >> i) & 1u) bytes[b >> 3] |= static_cast<uint8_t>(1u << (b & 7)); } cursor += w; } };

static uint32_t maxval(int w) { return w == 32 ? 0xFFFFFFFFu : ((1u << w) - 1u); }
static int alphabet(int w, int fullUpTo, uint32_t* out) {
	const uint32_t mx = maxval(w); int n = 0;
	if (w <= fullUpTo) { for (uint32_t v = 0;; ++v) { out[n++] = v; if (v == mx) break; } return n; }
	out[n++] = 0; out[n++] = 1; out[n++] = mx; out[n++] = mx - 1; out[n++] = 0xAAAAAAAAu & mx; out[n++] = 0x55555555u & mx;
	for (int b = 0; b < w; ++b) { out[n++] = 1u << b; out[n++] = mx & ~(1u << b); }
	return n;
}

// one case: buffer holds `prefix` (c bits), then one field
static void single_case(const uint8_t* prefixBytes, int c, int w, uint32_t v, int prefixKind) {
	B255::Buf buf; B255::Wr ws{buf, static_cast<ffsm2::Long>(c)};     // the constructor clears the buffer; the prefix is restored through the public data() accessor
	memcpy(buf.data(), prefixBytes, NBYTES);
	Model m; memcpy(m.bytes, prefixBytes, NBYTES); m.cursor = c;
	B255::wr(ws, w, v); m.write(w, v);
	++me().cases;
	char rp[96]; snprintf(rp, sizeof rp, "single:prefix=%d,c=%d,w=%d,v=%u", prefixKind, c, w, v);
	if (ws.cursor() != m.cursor) violation("cursor-advance", rp, "cursor %d after writing %d bits at %d", ws.cursor(), w, c);
	if (memcmp(buf.data(), m.bytes, NBYTES)) { int bit = 0; for (; bit < 256; ++bit) if (((buf.data()[bit >> 3] >> (bit & 7)) & 1) != ((m.bytes[bit >> 3] >> (bit & 7)) & 1)) break; violation("buffer-differs-from-model", rp, "bit %d differs after write<%d>(%u) at cursor %d (field is bits %d..%d)", bit, w, v, c, c, c + w - 1); }
	B255::Rd rs{buf, static_cast<ffsm2::Long>(c)};
	const uint32_t got = B255::rd(rs, w);
	if (got != v || rs.cursor() != c + w) violation("read-back", rp, "read<%d> at cursor %d returned %u (cursor %d), written %u", w, c, got, rs.cursor(), v);
}

static void part_single(int w_, int W_, int fullUpTo) {
	static uint32_t vals[70000];
	for (int c = w_; c < 255; c += W_) {
		if (out_of_time()) return;
		for (int pk = 0; pk < 3; ++pk) {
			// build the prefix through the API (1-bit fields), check it, then reuse its bytes
			B255::Buf pb; B255::Wr ps{pb}; Model pm; pm.clear();
			for (int i = 0; i < c; ++i) { const uint32_t bit = pk == 0 ? 0u : pk == 1 ? 1u : static_cast<uint32_t>(i & 1); B255::wr(ps, 1, bit); pm.write(1, bit); }
			me().cases += c;
			if (ps.cursor() != c || memcmp(pb.data(), pm.bytes, NBYTES)) { char rp[64]; snprintf(rp, sizeof rp, "prefix:kind=%d,c=%d", pk, c); violation("prefix", rp, "prefix of %d one-bit fields differs from the model", c); continue; }
			{ B255::Rd pr{pb}; bool ok = true; for (int i = 0; i < c; ++i) { const uint32_t bit = pk == 0 ? 0u : pk == 1 ? 1u : static_cast<uint32_t>(i & 1); if (B255::rd(pr, 1) != bit) ok = false; } if (!ok) { char rp[64]; snprintf(rp, sizeof rp, "prefix:kind=%d,c=%d", pk, c); violation("prefix-read-back", rp, "reading %d one-bit fields does not return what was written", c); } }
			for (int w = 1; w <= 32 && c + w <= 255; ++w) {
				const int n = alphabet(w, fullUpTo, vals);
				for (int k = 0; k < n; ++k) single_case(pm.bytes, c, w, vals[k], pk);
			}
			if (c == 13 && pk == 2) sample("capacity 255, prefix alternating 13 bits, then every width 1..32 with its value alphabet: e.g. write<7>(0x55) at cursor 13 -> cursor 20, bits 13..19 = 1010101, rest unchanged");
		}
	}
}

static void part_pairs(int w_, int W_) {
	int idx = 0;
	for (int off = 0; off < 8; ++off) for (int w1 = 1; w1 <= 32; ++w1) for (int w2 = 1; w2 <= 32; ++w2, ++idx) {
		if (idx % W_ != w_) continue;
		const uint32_t m1 = maxval(w1), m2 = maxval(w2);
		const uint32_t a1[] = {0, m1, 0xA5A5A5A5u & m1, 1u << (w1 - 1), 1u, 0x5A5A5A5Au & m1}, a2[] = {0, m2, 0x5A5A5A5Au & m2, 1u, 1u << (w2 - 1), 0xA5A5A5A5u & m2};
		for (uint32_t v1 : a1) for (uint32_t v2 : a2) for (int third = 0; third < 2; ++third) {
			B255::Buf buf; B255::Wr ws{buf}; Model m; m.clear();
			B255::Rd early{buf};   // a reader attached before anything is written reads the buffer, not a snapshot of it
			for (int i = 0; i < off; ++i) { B255::wr(ws, 1, 1); m.write(1, 1); }
			B255::wr(ws, w1, v1); m.write(w1, v1); B255::wr(ws, w2, v2); m.write(w2, v2);
			if (third) { B255::wr(ws, 3, 5); m.write(3, 5); }
			me().cases += 2 + third;
			char rp[96]; snprintf(rp, sizeof rp, "pair:off=%d,w1=%d,v1=%u,w2=%d,v2=%u,third=%d", off, w1, v1, w2, v2, third);
			if (ws.cursor() != m.cursor || memcmp(buf.data(), m.bytes, NBYTES)) violation("pair-buffer", rp, "two consecutive fields at offset %d differ from the model", off);
			{ // one reader following the writer field by field (it has read part of a byte before the rest of that byte is written)
				B255::Buf lb; B255::Wr lw{lb}; B255::Rd lr{lb}; bool ok = true;
				for (int i = 0; i < off; ++i) { B255::wr(lw, 1, 1); if (B255::rd(lr, 1) != 1) ok = false; }
				B255::wr(lw, w1, v1); if (B255::rd(lr, w1) != v1) ok = false;
				B255::wr(lw, w2, v2); if (B255::rd(lr, w2) != v2) ok = false;
				if (third) { B255::wr(lw, 3, 5); if (B255::rd(lr, 3) != 5) ok = false; }
				if (!ok || lr.cursor() != lw.cursor()) violation("reader-in-lockstep", rp, "a read stream following the writer field by field does not return what was just written"); }
			{ for (int i = 0; i < off; ++i) (void)B255::rd(early, 1); const uint32_t e1 = B255::rd(early, w1), e2 = B255::rd(early, w2); if (e1 != v1 || e2 != v2) violation("reader-attached-before-writes", rp, "a read stream constructed before the writes reads %u,%u, written %u,%u", e1, e2, v1, v2); }
			B255::Rd rs{buf}; for (int i = 0; i < off; ++i) (void)B255::rd(rs, 1);
			const uint32_t g1 = B255::rd(rs, w1), g2 = B255::rd(rs, w2);
			if (g1 != v1 || g2 != v2 || (third && B255::rd(rs, 3) != 5)) violation("pair-read-back", rp, "read back %u,%u", g1, g2);
		}
	}
}

// all write sequences to closure for a small capacity: state = (cursor, content)
template <int CAP> static void closure(int maxw, unsigned long* nstates, unsigned long* ntrans) {
	using S = BS<CAP>;
	constexpr int NB = (CAP + 7) / 8;
	struct St { uint8_t bytes[4]; uint8_t cursor; };
	Store st; st.init(NB + 1, sizeof(St));
	St s0; memset(&s0, 0, sizeof s0);
	uint8_t key[8]; memset(key, 0, sizeof key); bool isnew; st.intern(key, reinterpret_cast<uint8_t*>(&s0), &isnew);
	for (size_t i = 0; i < st.count; ++i) {
		St s; memcpy(&s, st.snap(i), sizeof s);
		for (int w = 1; w <= maxw && s.cursor + w <= CAP; ++w) for (int vi = 0; vi < 2; ++vi) {
			const uint32_t v = vi ? maxval(w) : 0u;
			typename S::Buf buf; typename S::Wr ws{buf, s.cursor}; memcpy(buf.data(), s.bytes, NB);
			S::wr(ws, w, v);
			uint8_t mb[4]; memcpy(mb, s.bytes, 4); for (int k = 0; k < w; ++k) if ((v >> k) & 1u) mb[(s.cursor + k) >> 3] |= static_cast<uint8_t>(1u << ((s.cursor + k) & 7));
			++*ntrans;
			char rp[96]; snprintf(rp, sizeof rp, "closure:cap=%d,state=%zu,w=%d,v=%u", CAP, i, w, v);
			if (ws.cursor() != s.cursor + w || memcmp(buf.data(), mb, NB)) violation("sequence-buffer", rp, "capacity %d: write<%d>(%u) at cursor %d differs from the model", CAP, w, v, s.cursor);
			typename S::Rd rs{buf, s.cursor}; if (S::rd(rs, w) != v) violation("sequence-read-back", rp, "capacity %d", CAP);
			St n; memset(&n, 0, sizeof n); memcpy(n.bytes, buf.data(), NB); n.cursor = ws.cursor();
			uint8_t k2[8]; memset(k2, 0, sizeof k2); memcpy(k2, n.bytes, NB); k2[NB] = n.cursor;
			st.intern(k2, reinterpret_cast<uint8_t*>(&n), &isnew);
		}
	}
	*nstates += st.count;
	free(st.keys.p); free(st.snaps.p); free(st.hashes.p); free(st.table.p);
}

// every capacity
template <int CAP> struct EveryCap {
	static void run() {
		using S = BS<CAP>;
		static_assert(S::Buf::BYTE_COUNT >= (CAP + 7) / 8, "BYTE_COUNT: the buffer is too small for its bit capacity");
		static_assert(sizeof(typename S::Buf) >= (CAP + 7) / 8, "buffer size: the buffer is too small for its bit capacity");
		char rp[48]; snprintf(rp, sizeof rp, "everycap:cap=%d", CAP);
		{ typename S::Buf buf; typename S::Wr ws{buf}; uint8_t mb[NBYTES]; memset(mb, 0, sizeof mb); for (int i = 0; i < CAP; ++i) { const uint32_t b = (i % 3) != 0; ws.template write<1>(static_cast<uint8_t>(b)); if (b) mb[i >> 3] |= static_cast<uint8_t>(1u << (i & 7)); } ++me().cases;
			if (ws.cursor() != CAP || memcmp(buf.data(), mb, (CAP + 7) / 8)) violation("capacity-fill-1bit", rp, "capacity %d", CAP);
			typename S::Rd rs{buf}; for (int i = 0; i < CAP; ++i) if (rs.template read<1>() != static_cast<uint32_t>((i % 3) != 0)) { violation("capacity-fill-read", rp, "capacity %d bit %d", CAP, i); break; } }
		{ typename S::Buf buf; typename S::Wr ws{buf}; Model m; m.clear(); int left = CAP; int k = 0; ++me().cases;
			while (left >= 8) { const uint32_t v = (0x9E3779B9u * static_cast<uint32_t>(k + 1)) & 0xFFu; ws.template write<8>(static_cast<uint8_t>(v)); m.write(8, v); ++k; left -= 8; }
			while (left > 0) { ws.template write<1>(1); m.write(1, 1); --left; }
			if (ws.cursor() != CAP || memcmp(buf.data(), m.bytes, (CAP + 7) / 8)) violation("capacity-fill-wide", rp, "capacity %d", CAP);
			typename S::Rd rs{buf}; for (int i = 0; i < k; ++i) if (rs.template read<8>() != ((0x9E3779B9u * static_cast<uint32_t>(i + 1)) & 0xFFu)) { violation("capacity-fill-wide-read", rp, "capacity %d field %d", CAP, i); break; } }
		// a write stream opened on a buffer that was used before (any prior contents): bits past the cursor are zero from the start,
		// and stay zero after every write; clear() by itself gives the same
		for (int dirt = 0; dirt < 3; ++dirt) { typename S::Buf buf; memset(buf.data(), dirt == 0 ? 0xFF : dirt == 1 ? 0xA5 : 0x80, (CAP + 7) / 8); ++me().cases;
			if (dirt == 2) { buf.clear(); for (int i = 0; i < (CAP + 7) / 8; ++i) if (buf.data()[i]) { violation("clear-leaves-bits", rp, "capacity %d: byte %d is 0x%02x after clear()", CAP, i, buf.data()[i]); break; } memset(buf.data(), 0xFF, (CAP + 7) / 8); }
			typename S::Wr ws{buf}; Model m; m.clear();
			bool bad = false; for (int i = 0; i < (CAP + 7) / 8; ++i) if (buf.data()[i]) bad = true;
			if (bad) violation("reused-buffer-not-zero", rp, "capacity %d: a write stream opened on a used buffer starts with bits set past the cursor", CAP);
			const int half = CAP / 2; for (int i = 0; i < half; ++i) { ws.template write<1>(1); m.write(1, 1); }
			if (ws.cursor() != half || memcmp(buf.data(), m.bytes, (CAP + 7) / 8)) violation("reused-buffer-content", rp, "capacity %d: after %d one-bit fields on a reused buffer the content differs from a fresh one", CAP, half); }
		// the same with a start cursor inside the buffer: every bit from the cursor on is zero before the first write, whatever the buffer held
		for (int c = 1; c < CAP && c <= 17; ++c) for (int dirt = 0; dirt < 2; ++dirt) { typename S::Buf buf; memset(buf.data(), dirt ? 0xA5 : 0xFF, (CAP + 7) / 8); ++me().cases;
			typename S::Wr ws{buf, static_cast<ffsm2::Long>(c)};
			int badbit = -1; for (int b = c; b < CAP; ++b) if (buf.data()[b >> 3] & (1u << (b & 7))) { badbit = b; break; }
			if (badbit >= 0) { violation("reused-buffer-not-zero-past-cursor", rp, "capacity %d: write stream opened at cursor %d on a used buffer: bit %d is set before anything was written", CAP, c, badbit); break; }
			// one field written there reads back
			const int w = (CAP - c) < 7 ? (CAP - c) : 7; uint32_t v = 0x2Au & ((1u << w) - 1u);
			switch (w) { case 1: ws.template write<1>(static_cast<uint8_t>(v)); break; case 2: ws.template write<2>(static_cast<uint8_t>(v)); break; case 3: ws.template write<3>(static_cast<uint8_t>(v)); break; case 4: ws.template write<4>(static_cast<uint8_t>(v)); break; case 5: ws.template write<5>(static_cast<uint8_t>(v)); break; case 6: ws.template write<6>(static_cast<uint8_t>(v)); break; default: ws.template write<7>(static_cast<uint8_t>(v)); break; }
			typename S::Rd rs{buf, static_cast<ffsm2::Long>(c)}; uint32_t g = 0;
			switch (w) { case 1: g = rs.template read<1>(); break; case 2: g = rs.template read<2>(); break; case 3: g = rs.template read<3>(); break; case 4: g = rs.template read<4>(); break; case 5: g = rs.template read<5>(); break; case 6: g = rs.template read<6>(); break; default: g = rs.template read<7>(); break; }
			if (g != v) { violation("reused-buffer-read-back", rp, "capacity %d: field of %d bits written at cursor %d on a reused buffer reads %u, written %u", CAP, w, c, g, v); break; } }
		// the state-index encoding used by save(): bitWidth(N) bits suffice for every index below N
		static_assert(CAP - 1 < (1 << ffsm2::bitWidth(CAP)) || ffsm2::bitWidth(CAP) >= 31, "bitWidth(N) too small");
		EveryCap<CAP - 1>::run();
	}
};
template <> struct EveryCap<0> { static void run() {} };

static void part_bitwidth(int w_, int W_) {
	const uint64_t total = 1ull << 32, chunk = (total + W_ - 1) / W_;
	const uint64_t lo = chunk * w_, hi = (lo + chunk > total) ? total : lo + chunk;
	unsigned long bad = 0; uint32_t firstBad = 0;
	for (uint64_t x = lo; x < hi; ++x) { const uint32_t v = static_cast<uint32_t>(x); const uint32_t ref = v ? 32u - static_cast<uint32_t>(__builtin_clz(v)) : 0u; if (ffsm2::bitWidth(v) != ref) { if (!bad++) firstBad = v; } }
	me().cases += hi - lo;
	if (bad) { char rp[48]; snprintf(rp, sizeof rp, "bitwidth:v=%u", firstBad); violation("bitWidth", rp, "bitWidth(%u) = %u (%lu wrong values in this slice)", firstBad, ffsm2::bitWidth(firstBad), bad); }
	if (w_ == 0) for (uint32_t n = 1; n <= 255; ++n) { ++me().cases; if (!((n - 1) < (1u << ffsm2::bitWidth(n)))) { char rp[48]; snprintf(rp, sizeof rp, "bitwidth-n:n=%u", n); violation("bitWidth-suffices", rp, "bitWidth(%u)=%u cannot encode index %u", n, ffsm2::bitWidth(n), n - 1); } }
}

static int replay(const char* s) {
	init(1);
	int a, b, c; unsigned v, v2; int t;
	if (sscanf(s, "single:prefix=%d,c=%d,w=%d,v=%u", &a, &b, &c, &v) == 4) {
		B255::Buf pb; B255::Wr ps{pb}; for (int i = 0; i < b; ++i) B255::wr(ps, 1, a == 0 ? 0u : a == 1 ? 1u : static_cast<unsigned>(i & 1));
		uint8_t bytes[NBYTES]; memcpy(bytes, pb.data(), NBYTES); single_case(bytes, b, c, v, a);
	} else if (sscanf(s, "bitwidth:v=%u", &v) == 1) { const uint32_t ref = v ? 32u - static_cast<uint32_t>(__builtin_clz(v)) : 0u; printf("bitWidth(%u)=%u expected %u\n", v, ffsm2::bitWidth(v), ref); if (ffsm2::bitWidth(v) != ref) ++me().bad; }
	else if (sscanf(s, "pair:off=%d,w1=%d,v1=%u,w2=%d,v2=%u,third=%d", &a, &b, &v, &c, &v2, &t) == 6) {
		B255::Buf buf; B255::Wr ws{buf}; Model m; m.clear(); for (int i = 0; i < a; ++i) { B255::wr(ws, 1, 1); m.write(1, 1); } B255::wr(ws, b, v); m.write(b, v); B255::wr(ws, c, v2); m.write(c, v2); if (t) { B255::wr(ws, 3, 5); m.write(3, 5); }
		if (ws.cursor() != m.cursor || memcmp(buf.data(), m.bytes, NBYTES)) ++me().bad;
	} else { printf("re-running the whole part for '%s'\n", s); part_pairs(0, 1); EveryCap<255>::run(); }
	Totals t2 = totals(); for (int i = 0; i < me().nfirst; ++i) printf("  FLAG %s\n", me().first[i]);
	printf("replay: %lu violation(s)\n", t2.bad); return t2.bad ? 1 : 0;
}

int main(int argc, char** argv) {
	bool skipBw = false; int na = 1;
	for (int i = 1; i < argc; ++i) { if (!strcmp(argv[i], "--skip-bitwidth")) skipBw = true; else argv[na++] = argv[i]; }
	Args a = parse_args(na, argv);
	if (a.replay) return replay(a.replay);
	init(a.workers);
	const int fullUpTo = a.tier ? 16 : 11;
	parallel([&](int w, int W) { part_single(w, W, fullUpTo); });
	parallel([&](int w, int W) { part_pairs(w, W); });
	unsigned long cst = 0, ctr = 0;
	// closures: run in this process (small) -- capacity 1..16 quick, up to 22 thorough
	g_w = g_W;
	closure<1>(1, &cst, &ctr); closure<2>(2, &cst, &ctr); closure<3>(3, &cst, &ctr); closure<5>(5, &cst, &ctr); closure<7>(7, &cst, &ctr); closure<8>(8, &cst, &ctr); closure<9>(9, &cst, &ctr); closure<12>(9, &cst, &ctr); closure<16>(9, &cst, &ctr); closure<17>(9, &cst, &ctr);
	if (a.tier) { closure<20>(9, &cst, &ctr); closure<22>(9, &cst, &ctr); }
	me().states += cst; me().cases += ctr;
	EveryCap<255>::run();
	sample("closure over every sequence of fields (widths 1..9, values all-zero / all-one) for capacities 1..%d: %lu distinct (cursor, content) states, %lu writes", a.tier ? 22 : 17, cst, ctr);
	if (!skipBw) parallel([&](int w, int W) { part_bitwidth(w, W); });
	sample("bitWidth(v) == (v ? 32 - clz(v) : 0) for all 2^32 arguments; N-1 < 2^bitWidth(N) for N = 1..255");
	char extra[200]; snprintf(extra, sizeof extra, ",\"closure_states\":%lu,\"closure_writes\":%lu,\"full_value_range_up_to_width\":%d", cst, ctr, fullUpTo);
	write_result(a.out, "seqx_bitstream", extra);
	return totals().bad ? 1 : 0;
}
