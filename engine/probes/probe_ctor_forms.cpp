// probe_ctor_forms.cpp -- C14 "the first declared state is the initial state ... only its callbacks run", for every way an automatically
// activated machine can be constructed: no context, context object (lvalue, temporary, moved), reference, pointer;
// with and without a root head. Public API only.
#ifdef VX_DEV_HEADER
#include <ffsm2/machine_dev.hpp>
#else
#include <ffsm2/machine.hpp>
#endif
#include <stdio.h>
#include <string.h>
#include <utility>
#include <new>

static char g_log[256]; static int g_n = 0;
static void rec(char who, char what) { if (g_n < 250) { g_log[g_n++] = who; g_log[g_n++] = what; g_log[g_n] = 0; } }
static int g_bad = 0; static unsigned g_checks = 0;
static void expect(const char* form, const char* what, const char* want) { ++g_checks; if (strcmp(g_log, want)) { ++g_bad; printf("MISMATCH [%s] %s: callbacks '%s', expected '%s'\n", form, what, g_log, want); } g_n = 0; g_log[0] = 0; }

struct Ctx { int v; };

template <typename TConfig, bool HEAD> struct Shape {
	using M = ffsm2::MachineT<TConfig>;
	struct R; struct A; struct B; struct C;
	template <bool H, typename = void> struct Mk { using FSM = typename M::template PeerRoot<A, B, C>; };
	template <typename D> struct Mk<true, D> { using FSM = typename M::template Root<R, A, B, C>; };
	using FSM = typename Mk<HEAD>::FSM;
	template <char W> struct Base : FSM::State {
		void entryGuard(typename FSM::GuardControl&) { rec(W, 'g'); }
		void enter(typename FSM::State::PlanControl&) { rec(W, 'e'); }
		void update(typename FSM::FullControl&) { rec(W, 'u'); }
		void exit(typename FSM::State::PlanControl&) { rec(W, 'x'); }
	};
	struct R : Base<'R'> {}; struct A : Base<'A'> {}; struct B : Base<'B'> {}; struct C : Base<'C'> {};
	using Inst = typename FSM::Instance;
	static void drive(Inst& m, const char* form) {
		expect(form, "construction", HEAD ? "RgAgReAe" : "AgAe");
		++g_checks; if (m.activeStateId() != FSM::template stateId<A>()) { ++g_bad; printf("MISMATCH [%s] active state after construction is %d, the first declared state must be\n", form, static_cast<int>(m.activeStateId())); }
		m.update(); expect(form, "first update()", HEAD ? "RuAu" : "Au");
		m.changeTo(FSM::template stateId<C>()); m.update(); expect(form, "changeTo(C) + update()", HEAD ? "RuAuCgAxCe" : "AuCgAxCe");
		++g_checks; if (m.activeStateId() != FSM::template stateId<C>()) { ++g_bad; printf("MISMATCH [%s] active state after changeTo(C) is %d\n", form, static_cast<int>(m.activeStateId())); }
	}
};

template <bool HEAD> static void all_forms() {
	const char* h = HEAD ? "Root" : "PeerRoot";
	char form[64];
	{ using S = Shape<ffsm2::Config, HEAD>; { typename S::Inst m; snprintf(form, sizeof form, "%s, no context", h); S::drive(m, form); } g_n = 0; g_log[0] = 0; }
	{ using S = Shape<ffsm2::Config::ContextT<Ctx>, HEAD>;
		{ Ctx c{1}; typename S::Inst m{c}; snprintf(form, sizeof form, "%s, value context from an lvalue", h); S::drive(m, form); } g_n = 0; g_log[0] = 0;
		{ typename S::Inst m{Ctx{3}}; snprintf(form, sizeof form, "%s, value context from a temporary", h); S::drive(m, form); ++g_checks; if (m.context().v != 3) { ++g_bad; printf("MISMATCH [%s] context value %d\n", form, m.context().v); } } g_n = 0; g_log[0] = 0;
		{ Ctx c{4}; typename S::Inst m{std::move(c)}; snprintf(form, sizeof form, "%s, value context moved in", h); S::drive(m, form); } g_n = 0; g_log[0] = 0; }
	{ using S = Shape<ffsm2::Config::ContextT<Ctx&>, HEAD>; { Ctx c{5}; typename S::Inst m{c}; snprintf(form, sizeof form, "%s, reference context", h); S::drive(m, form); } g_n = 0; g_log[0] = 0; }
	{ using S = Shape<ffsm2::Config::ContextT<Ctx*>, HEAD>; { Ctx c{6}; typename S::Inst m{&c}; snprintf(form, sizeof form, "%s, pointer context", h); S::drive(m, form); } g_n = 0; g_log[0] = 0;
		{ typename S::Inst m{nullptr}; snprintf(form, sizeof form, "%s, null pointer context", h); S::drive(m, form); } g_n = 0; g_log[0] = 0; }
}

// a machine that is moved (explicitly, or when a container grows) or copied between a request and its processing still carries the request
template <bool HEAD> static void relocated() {
	using S = Shape<ffsm2::Config, HEAD>; using FSM = typename S::FSM; char form[64];
	for (int how = 0; how < 2; ++how) {
		typename S::Inst a; g_n = 0; g_log[0] = 0;
		a.changeTo(FSM::template stateId<typename S::C>());
		alignas(typename S::Inst) static unsigned char store[sizeof(typename S::Inst)];
		typename S::Inst* b = how == 0 ? new (store) typename S::Inst(std::move(a)) : new (store) typename S::Inst(a);
		snprintf(form, sizeof form, "%s, %s-constructed with a request pending", HEAD ? "Root" : "PeerRoot", how == 0 ? "move" : "copy");
		expect(form, "construction of the new object", "");
		b->update(); expect(form, "update() on the new object", HEAD ? "RuAuCgAxCe" : "AuCgAxCe");
		++g_checks; if (b->activeStateId() != FSM::template stateId<typename S::C>()) { ++g_bad; printf("MISMATCH [%s] active state %d, the request made before the relocation leads to %d\n", form, static_cast<int>(b->activeStateId()), static_cast<int>(FSM::template stateId<typename S::C>())); }
		g_n = 0; g_log[0] = 0;   // neither object is destroyed: both would run the final exit
	}
}

int main() {
	all_forms<false>(); all_forms<true>();
	relocated<false>(); relocated<true>();
	printf("constructor forms: %u checks, %d mismatches\n", g_checks, g_bad);
	return g_bad ? 1 : 0;
}
