// probe_constexpr.cpp -- C19 (C++20): a machine can be created, updated, moved through a transition and destroyed inside a constant
// expression. Compiling a feature in that the program does not use must not take that away. Prints "CONSTEXPR 1" or "CONSTEXPR 0".
#ifdef VX_DEV_HEADER
#include <ffsm2/machine_dev.hpp>
#else
#include <ffsm2/machine.hpp>
#endif
#include <cstdio>

using M   = ffsm2::Machine;
struct Idle; struct Busy; struct Done;
using FSM = M::PeerRoot<Idle, Busy, Done>;
struct Idle : FSM::State { constexpr void update(FullControl& control) noexcept { control.changeTo<Busy>(); } };
struct Busy : FSM::State { constexpr void entryGuard(GuardControl&) noexcept {} constexpr void update(FullControl& control) noexcept { control.changeTo<Done>(); } };
struct Done : FSM::State {};

constexpr int lifeCycle() {
	FSM::Instance machine;
	if (!machine.isActive<Idle>()) return 1;
	machine.update();
	if (!machine.isActive<Busy>()) return 2;
	machine.update();
	if (!machine.isActive<Done>()) return 3;
	machine.immediateChangeTo<Idle>();
	return machine.isActive<Idle>() ? 0 : 4;
}
template <typename F, int = (F{}(), 0)> constexpr bool usableInConstantExpression(F) { return true; }
constexpr bool usableInConstantExpression(...) { return false; }

int main() {
	const int rt = lifeCycle();
	if (rt) { std::printf("RUNTIME-FAIL %d\n", rt); return 1; }
	std::printf("CONSTEXPR %d\n", usableInConstantExpression([] { return lifeCycle(); }) ? 1 : 0);
	return 0;
}
