// API probe: iterating a fixed array visits every element once, in index order (C20).
#include <ffsm2/machine.hpp>
#include <cstdio>
using namespace ffsm2::detail;
template <int C> int run() {
	StaticArrayT<int, C> a; int bad = 0;
	for (int i = 0; i < C; ++i) a[i] = i * 3 + 1;
	int n = 0; for (auto it = a.begin(); it != a.end(); ++it, ++n) if (*it != n * 3 + 1) ++bad;
	if (n != C) ++bad;
	n = 0; for (int x : a) { if (x != n * 3 + 1) ++bad; ++n; } if (n != C) ++bad;
	const StaticArrayT<int, C>& ca = a; n = 0; for (auto it = ca.cbegin(); it != ca.cend(); ++it, ++n) if (*it != n * 3 + 1) ++bad; if (n != C) ++bad;
	return bad;
}
int main() { int bad = run<1>() + run<2>() + run<7>() + run<8>() + run<9>() + run<200>() + run<255>(); std::printf("static array iteration probe: %d mismatches\n", bad); return bad ? 1 : 0; }
