// c19_probe.cpp -- feature-neutral program (public API only, C++11): its observable behaviour must not depend on which
// FFSM2_ENABLE_* / FFSM2_DISABLE_* switches are defined, on the language standard, the compiler or the header variant.
// Built with the project's own warning flags (-Werror -Wall -Wextra -Wpedantic -Wshadow -Wold-style-cast).
#ifdef VX_DEV_HEADER
#include <ffsm2/machine_dev.hpp>
#else
#include <ffsm2/machine.hpp>
#endif
#include <stdint.h>
#include <stdio.h>

// application types whose names the library must not take over inside the state classes, whatever switches are defined
struct Logger { unsigned n; }; struct Task { unsigned n; }; struct Status { unsigned n; };

namespace {

uint64_t g_hash = 1469598103934665603ull;
unsigned g_step = 0;
bool g_quiet = false;       // phase callbacks make no requests of their own during this cycle
bool g_rerequest = false;   // guards re-request the very destination under evaluation (with another payload where there is one)
unsigned long g_calls = 0;
void mixin(unsigned v) { g_hash ^= v; g_hash *= 1099511628211ull; ++g_calls; }

struct Ev { int v; };
struct Qu { int v; };
struct Pay { int32_t a; };

template <typename TMachine, bool WithPayload> struct World;

template <typename C> void observe(C& c, unsigned site) {
	mixin(site); mixin(c.stateId());
	for (ffsm2::StateID k = 0; k < 3; ++k) mixin(c.isActive(k) ? 1u : 0u);
	mixin(c.request().destination); mixin(c.request().origin);
}

template <typename FSM, int I, bool P> struct StT;

template <bool P> struct Req {
	template <typename C> static void change(C& c, ffsm2::StateID d, int) { c.changeTo(d); }
};
template <> struct Req<true> {
	template <typename C> static void change(C& c, ffsm2::StateID d, int v) { if (v & 1) c.changeWith(d, Pay{v}); else c.changeTo(d); }
};

template <bool P> struct PayOf { template <typename T> static unsigned of(const T&) { return 7u; } };
template <> struct PayOf<true> { template <typename T> static unsigned of(const T& t) { return t.payload() ? static_cast<unsigned>(t.payload()->a) + 100u : 9u; } };
template <bool P> struct ExtReq {
	template <typename M_> static void change(M_& m, ffsm2::StateID d, int) { m.changeTo(d); }
};
template <> struct ExtReq<true> {
	template <typename M_> static void change(M_& m, ffsm2::StateID d, int v) { m.changeWith(d, Pay{v}); }
};

template <typename TConfig, bool P>
struct Scenario {
	using M = ffsm2::MachineT<TConfig>;
	struct R; struct A; struct B; struct C;
	using FSM = typename M::template Root<R, A, B, C>;
	using GuardControl = typename FSM::GuardControl;
	using FullControl = typename FSM::FullControl;
	using Control = typename FSM::Control;
	using ConstControl = typename FSM::ConstControl;

	template <int I> struct Base : FSM::State {
		using PlanControl = typename FSM::State::PlanControl;
		void entryGuard(GuardControl& c) { observe(c, 100 + I); mixin(c.pendingTransition().destination);
			if (g_rerequest) { g_rerequest = false; Req<P>::change(c, static_cast<ffsm2::StateID>(I), static_cast<int>(g_step) | 1); return; } if ((g_step + I) % 5 == 0) c.cancelPendingTransition(); else if ((g_step + I) % 7 == 0) Req<P>::change(c, static_cast<ffsm2::StateID>((I + 2) % 3), static_cast<int>(g_step)); }
		void enter(PlanControl& c) { observe(c, 110 + I); mixin(c.currentTransition().destination); mixin(PayOf<P>::of(c.currentTransition())); }
		void reenter(PlanControl& c) { observe(c, 120 + I); }
		void preUpdate(FullControl& c) { observe(c, 130 + I); if (!g_quiet && g_step % 11 == 3) Req<P>::change(c, static_cast<ffsm2::StateID>((I + 1) % 3), static_cast<int>(g_step)); }
		void update(FullControl& c) { observe(c, 140 + I); if (!g_quiet && g_step % 3 == static_cast<unsigned>(I)) Req<P>::change(c, static_cast<ffsm2::StateID>((I + 1) % 3), static_cast<int>(g_step)); }
		void postUpdate(FullControl& c) { observe(c, 150 + I); if (!g_quiet && g_step % 13 == 5) Req<P>::change(c, static_cast<ffsm2::StateID>(I), static_cast<int>(g_step)); }
		void preReact(const Ev& e, FullControl& c) { observe(c, 160 + I); mixin(static_cast<unsigned>(e.v)); }
		void react(const Ev& e, FullControl& c) { observe(c, 170 + I); if (e.v % 2 == 0) Req<P>::change(c, static_cast<ffsm2::StateID>((I + 2) % 3), e.v); }
		void postReact(const Ev& e, FullControl& c) { observe(c, 180 + I); mixin(static_cast<unsigned>(e.v)); }
		void query(Qu& q, ConstControl& c) const { mixin(190 + I); mixin(c.stateId()); q.v += I + 1; }
		void exitGuard(GuardControl& c) { observe(c, 200 + I); if ((g_step + I) % 6 == 1) c.cancelPendingTransition(); }
		void exit(PlanControl& c) { observe(c, 210 + I); }
	};
	struct R : Base<9> {}; struct A : Base<0> {};
	// a state that uses the application's own Logger / Task / Status types by their unqualified names
	struct B : Base<1> { void reenter(typename Base<1>::PlanControl& c) { Logger lg{3}; Task tk{5}; Status st{7}; mixin(lg.n + tk.n + st.n); observe(c, 121); } };
	// a state whose default constructor is not public: the machine constructs it as part of itself, nobody else can
	struct C : Base<2> { protected: C() {} };
	using Instance = typename FSM::Instance;

	template <bool Manual> static void drive(Instance& m) {
		for (g_step = 1; g_step <= 60; ++g_step) {
			mixin(1000 + m.activeStateId());
			switch (g_step % 6) {
			case 0: m.update(); break;
			case 1: m.changeTo(static_cast<ffsm2::StateID>(g_step % 3)); m.update(); break;
			case 2: m.immediateChangeTo(static_cast<ffsm2::StateID>((g_step / 2) % 3)); break;
			case 3: { Ev e{static_cast<int>(g_step)}; m.react(e); } break;
			case 4: { Qu q{0}; m.query(q); mixin(static_cast<unsigned>(q.v)); } break;
			default: m.update(); m.update(); break;
			}
			if (g_step % 10 == 7) {   // a request from outside (with a payload where the configuration has one) whose destination's entry guard asks for the same destination again
				g_rerequest = true; g_quiet = true; ExtReq<P>::change(m, static_cast<ffsm2::StateID>((g_step / 10) % 3), static_cast<int>(g_step) * 2); m.update(); g_rerequest = false; g_quiet = false; }
			for (ffsm2::StateID k = 0; k < 3; ++k) mixin(m.isActive(k) ? 1u : 0u);
		}
	}
};

template <bool P> struct CfgOf { using Auto = ffsm2::Config; using Man = ffsm2::Config::ManualActivation; };
template <> struct CfgOf<true> { using Auto = ffsm2::Config::PayloadT<Pay>; using Man = ffsm2::Config::PayloadT<Pay>::ManualActivation; };

template <bool P> void run_all() {
	{ using S = Scenario<typename CfgOf<P>::Auto, P>; typename S::Instance m; S::template drive<false>(m); }
	{ using S = Scenario<typename CfgOf<P>::Man, P>; typename S::Instance m; mixin(m.isActive() ? 1u : 0u); m.enter(); S::template drive<true>(m); m.exit(); mixin(m.isActive() ? 1u : 0u); m.enter(); m.update(); m.exit(); }
}

// a concrete machine written the way applications write them (no templates around it): the states' bases are ordinary classes,
// so an unqualified name inside a state is looked up in the library's base classes before the enclosing scopes -- the
// application's own Logger / Task / Status must still be what these names mean, whatever switches are defined
namespace concrete {
using M = ffsm2::MachineT<ffsm2::Config>;
struct Top; struct Left; struct Right;
using FSM = M::Root<Top, Left, Right>;
struct Top : FSM::State { void enter(PlanControl&) { Logger lg{2}; mixin(300 + lg.n); } };
struct Left : FSM::State {
	void enter(PlanControl&) { Logger lg{3}; Task tk{5}; Status st{7}; mixin(310 + lg.n + tk.n + st.n); }
	void update(FullControl& c) { Status st{1}; mixin(320 + st.n); c.changeTo<Right>(); }
};
struct Right : FSM::State {
	void entryGuard(GuardControl&) { Task tk{9}; mixin(330 + tk.n); }
	void enter(PlanControl&) { Logger lg{11}; mixin(340 + lg.n); }
};
void run() { FSM::Instance m; mixin(m.activeStateId()); m.update(); mixin(m.activeStateId()); m.update(); mixin(m.activeStateId()); }
}

} // namespace

int main() {
	run_all<false>();
	run_all<true>();
	concrete::run();
	printf("C19-DIGEST %016llx calls=%lu\n", static_cast<unsigned long long>(g_hash), g_calls);
	return 0;
}
