// API probe (public interface only): the mutable plan's first()/last() must be usable and agree with iteration (C10).
#define FFSM2_ENABLE_PLANS
#include <ffsm2/machine.hpp>
#include <cstdio>
using M = ffsm2::MachineT<ffsm2::Config::TaskCapacityN<3>>;
struct A; struct B; struct C;
using FSM = M::PeerRoot<A, B, C>;
struct A : FSM::State {}; struct B : FSM::State {}; struct C : FSM::State {};
int main() {
	FSM::Instance m; int bad = 0;
	auto p = m.plan();
	p.change<A, B>(); p.change<B, C>(); p.change<C, A>();
	{ const auto& f = p.first(); const auto& l = p.last(); if (f.origin != 0 || f.destination != 1) ++bad; if (l.origin != 2 || l.destination != 0) ++bad; }
	{ const auto& cp = p; const auto& f = cp.first(); const auto& l = cp.last(); if (f.origin != 0 || l.origin != 2) ++bad; }
	{ auto it = p.begin(); it.remove(); auto q = m.plan(); if (q.first().origin != 1 || q.last().origin != 2) ++bad; }
	{ auto q = m.plan(); auto it = q.begin(); ++it; it.remove(); auto r = m.plan(); if (r.first().origin != 1 || r.last().origin != 1) ++bad; }
	std::printf("plan first/last probe: %d mismatches\n", bad);
	return bad ? 1 : 0;
}
