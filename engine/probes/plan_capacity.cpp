// plan_capacity.cpp -- C10 at the capacity boundary, through a real machine and its public API only.
//   -DVX_CAPN=<explicit task capacity 1..254>   or   -DVX_DEFAULT_CAP -DVX_NST=<number of states> (capacity defaults to the state count)
#define FFSM2_ENABLE_PLANS
#ifdef VX_DEV_HEADER
#include <ffsm2/machine_dev.hpp>
#else
#include <ffsm2/machine.hpp>
#endif
#include <stdio.h>
#include <utility>
#ifndef VX_NST
#define VX_NST 2
#endif
#ifdef VX_DEFAULT_CAP
using Cfg = ffsm2::Config;
static const int CAP = VX_NST;
#else
using Cfg = ffsm2::Config::TaskCapacityN<VX_CAPN>;
static const int CAP = VX_CAPN;
#endif
using M = ffsm2::MachineT<Cfg>;
template <int I> struct St;
template <typename Seq> struct Mk; template <size_t... I> struct Mk<std::index_sequence<I...>> { using FSM = M::PeerRoot<St<static_cast<int>(I)>...>; };
using FSM = Mk<std::make_index_sequence<VX_NST>>::FSM;
template <int I> struct St : FSM::State { void update(FullControl& c) { c.succeed(); } };
static int bad = 0; static unsigned long steps = 0;
#define CHECK(x, ...) do { ++steps; if (!(x)) { if (!bad++) { printf("FAIL line %d: ", __LINE__); printf(__VA_ARGS__); printf("\n"); } } } while (0)
static int label_o(int i) { return i % VX_NST; } static int label_d(int i) { return (i * 7 + 1) % VX_NST; }
int main() {
	static_assert(FSM::Instance::TASK_CAPACITY == CAP, "task capacity");
	FSM::Instance m;
	for (int round = 0; round < 3; ++round) {
		{ auto p = m.plan(); CHECK(!p, "round %d: plan not empty at start", round);
			for (int i = 0; i < CAP; ++i) CHECK(p.change(static_cast<ffsm2::StateID>(label_o(i + round)), static_cast<ffsm2::StateID>(label_d(i + round))), "append %d of %d refused", i, CAP);
			CHECK(!p.change(0, 0), "append beyond capacity %d accepted", CAP); CHECK(!p.change(0, 0), "second append beyond capacity accepted");
			int n = 0; for (auto it = p.begin(); it; ++it, ++n) CHECK(it->origin == label_o(n + round) && it->destination == label_d(n + round), "task %d differs", n);
			CHECK(n == CAP, "iteration yields %d of %d tasks", n, CAP); }
		{ // remove every other task in one pass; order of the rest preserved
			auto p = m.plan(); int pos = 0, visited = 0; for (auto it = p.begin(); it; ++it, ++pos) { ++visited; if (pos % 2 == 0) it.remove(); } CHECK(visited == CAP, "removal pass visited %d of %d", visited, CAP);
			auto q = m.plan(); int n = 0; for (auto it = q.begin(); it; ++it, ++n) { const int src = 2 * n + 1; CHECK(it->origin == label_o(src + round) && it->destination == label_d(src + round), "after removal task %d differs", n); } CHECK(n == CAP / 2, "after removal %d tasks, expected %d", n, CAP / 2);
			// the freed slots are reusable: refill to capacity
			for (int i = n; i < CAP; ++i) CHECK(q.change(0, 0), "refill %d refused", i); CHECK(!q.change(0, 0), "append beyond capacity after refill accepted");
			int c = 0; for (auto it = q.begin(); it; ++it) ++c; CHECK(c == CAP, "after refill %d tasks", c); }
		{ auto p = m.plan(); p.clear(); CHECK(!p, "clear() left tasks"); int c = 0; for (auto it = p.begin(); it; ++it) ++c; CHECK(c == 0, "iteration after clear"); }
		{ // consumption by firing: CAP tasks that each fire in turn
			m.immediateChangeTo(0); auto p = m.plan(); int cur = 0;
			for (int i = 0; i < CAP; ++i) { const int nxt = VX_NST > 1 ? (cur + 1) % VX_NST : 0; CHECK(p.change(static_cast<ffsm2::StateID>(cur), static_cast<ffsm2::StateID>(nxt)), "append %d", i); cur = nxt; }
			cur = 0;
			for (int i = 0; i < CAP; ++i) { m.update(); const int nxt = VX_NST > 1 ? (cur + 1) % VX_NST : 0; CHECK(m.activeStateId() == nxt, "step %d: active %d expected %d", i, m.activeStateId(), nxt); cur = nxt; int left = 0; auto q = m.plan(); for (auto it = q.begin(); it; ++it) ++left; CHECK(left == CAP - 1 - i, "step %d: %d tasks left, expected %d", i, left, CAP - 1 - i); }
			auto q = m.plan(); CHECK(!q, "plan not empty after all tasks fired");
			for (int i = 0; i < CAP; ++i) CHECK(q.change(0, 0), "refill after firing %d refused", i); CHECK(!q.change(0, 0), "over capacity after firing"); q.clear(); }
	}
	printf("plan capacity %d on %d states: %lu checks, %d failures\n", CAP, VX_NST, steps, bad);
	return bad ? 1 : 0;
}
