// seqx_common.hpp -- shared scaffolding of the container / configuration-sweep harnesses:
// fork-based sharding, violation collection, JSON result. No out-of-line libstdc++ (MSan-clean).
#pragma once
#include "vx_core.hpp"
#include "vx_alloc.hpp"
#include <sys/wait.h>
#include <sys/mman.h>
#include <sys/prctl.h>
#include <signal.h>
#include <errno.h>
#include <time.h>

namespace sx {
using namespace vx;

struct Shared {                // one per worker, in shared memory
	unsigned long cases, states, bad;
	char first[8][768];          // first violations: "<pred>\t<replay>\t<text>"
	int nfirst;
	char sample[3][512]; int nsample;
	char inflight[256];
};
static Shared* g_sh = nullptr; static int g_w = 0, g_W = 1;
static double g_deadline = 1e18; static bool g_capped = false;
inline double now() { timespec ts; clock_gettime(CLOCK_MONOTONIC, &ts); return ts.tv_sec + ts.tv_nsec * 1e-9; }
static double g_t0 = 0;
static unsigned g_worker_alarm = 900;   // a worker that runs longer than this is stuck inside a library call: SIGALRM ends it and the parent reports the crash

inline void init(int W) { g_W = W < 1 ? 1 : W; g_sh = static_cast<Shared*>(mmap(nullptr, sizeof(Shared) * (g_W + 1), PROT_READ | PROT_WRITE, MAP_SHARED | MAP_ANONYMOUS, -1, 0)); memset(g_sh, 0, sizeof(Shared) * (g_W + 1)); g_t0 = now(); }
inline Shared& me() { return g_sh[g_w]; }
inline void violation(const char* pred, const char* replay, const char* fmt, ...) {
	Shared& s = me(); ++s.bad;
	if (s.nfirst >= 8) return;
	for (int i = 0; i < s.nfirst; ++i) if (!strncmp(s.first[i], pred, strlen(pred)) && s.first[i][strlen(pred)] == '\t') return;   // one per predicate
	char msg[512]; va_list ap; va_start(ap, fmt); vsnprintf(msg, sizeof msg, fmt, ap); va_end(ap);
	snprintf(s.first[s.nfirst++], sizeof s.first[0], "%s\t%s\t%s", pred, replay, msg);
}
inline void sample(const char* fmt, ...) { Shared& s = me(); if (s.nsample >= 3) return; va_list ap; va_start(ap, fmt); vsnprintf(s.sample[s.nsample++], sizeof s.sample[0], fmt, ap); va_end(ap); }
inline bool out_of_time() { if (now() - g_t0 > g_deadline) { g_capped = true; return true; } return false; }

// runs fn(w, W) in W forked workers (or inline when W == 1); returns number of crashed workers
template <typename F> inline int parallel(F fn) {
	if (g_W == 1) { g_w = 0; fn(0, 1); return 0; }
	pid_t pids[256]; fflush(nullptr);
	for (int w = 0; w < g_W; ++w) { pid_t p = fork(); if (p == 0) { prctl(PR_SET_PDEATHSIG, SIGKILL); alarm(g_worker_alarm); g_w = w; fn(w, g_W); if (g_capped) snprintf(me().inflight, sizeof me().inflight, "CAPPED"); fflush(nullptr); _exit(0); } pids[w] = p; }
	int crashed = 0;
	for (int w = 0; w < g_W; ++w) { int st = 0; while (waitpid(pids[w], &st, 0) < 0 && errno == EINTR) {} if (!WIFEXITED(st) || WEXITSTATUS(st)) { ++crashed; Shared& s = g_sh[w]; ++s.bad; if (s.nfirst < 8) snprintf(s.first[s.nfirst++], sizeof s.first[0], "crash\t%s\tworker %d %s (status 0x%x)", s.inflight, w, (WIFSIGNALED(st) && WTERMSIG(st) == SIGALRM) ? "did not finish: a library call does not return" : "terminated abnormally", st); } else if (!strcmp(g_sh[w].inflight, "CAPPED")) g_capped = true; }
	return crashed;
}

struct Totals { unsigned long cases = 0, states = 0, bad = 0; };
inline Totals totals() { Totals t; for (int w = 0; w <= g_W; ++w) { t.cases += g_sh[w].cases; t.states += g_sh[w].states; t.bad += g_sh[w].bad; } return t; }

inline void write_result(const char* out, const char* name, const char* extra_json) {
	FILE* f = out ? fopen(out, "w") : stdout; if (!f) die("cannot write %s", out);
	Totals t = totals();
	fprintf(f, "{\"harness\":"); json_str(f, name);
	fprintf(f, ",\"states\":%lu,\"transitions\":%lu,\"violations\":%lu,\"exhaustive\":%s,\"wall_s\":%.2f,\"witnesses\":[", t.states, t.cases, t.bad, g_capped ? "false" : "true", now() - g_t0);
	bool first = true;
	for (int w = 0; w <= g_W; ++w) for (int i = 0; i < g_sh[w].nfirst; ++i) {
		char* l = g_sh[w].first[i]; char* t1 = strchr(l, '\t'); char* t2 = t1 ? strchr(t1 + 1, '\t') : nullptr; if (!t1 || !t2) continue; *t1 = 0; *t2 = 0;
		fprintf(f, "%s{\"pred\":", first ? "" : ","); json_str(f, l); fprintf(f, ",\"replay\":"); json_str(f, t1 + 1); fprintf(f, ",\"text\":"); json_str(f, t2 + 1); fprintf(f, "}"); first = false; *t1 = '\t'; *t2 = '\t';
	}
	fprintf(f, "],\"samples\":["); first = true;
	int ns = 0;
	for (int w = g_W; w >= 0; --w) for (int i = 0; i < g_sh[w].nsample && ns < 5; ++i, ++ns) { fprintf(f, "%s", first ? "" : ","); json_str(f, g_sh[w].sample[i]); first = false; }
	fprintf(f, "]%s}\n", extra_json ? extra_json : "");
	if (out) fclose(f);
}

struct Args { int workers = 1; const char* out = nullptr; const char* replay = nullptr; int tier = 0; double deadline = 1e18; };
inline Args parse_args(int argc, char** argv) {
	Args a;
	for (int i = 1; i < argc; ++i) { const char* s = argv[i];
		if (!strncmp(s, "--workers=", 10)) a.workers = atoi(s + 10); else if (!strncmp(s, "--out=", 6)) a.out = s + 6; else if (!strncmp(s, "--replay=", 9)) a.replay = s + 9;
		else if (!strcmp(s, "--thorough")) a.tier = 1; else if (!strncmp(s, "--deadline=", 11)) a.deadline = atof(s + 11); else die("unknown argument %s", s); }
	g_deadline = a.deadline;
	return a;
}

} // namespace sx
