// seqx_containers.cpp -- C20 (BitArrayT, StaticArrayT, DynamicArrayT) and the TaskListT level of C10, each against its plain model.
//   --what=bitarray | arrays | tasklist
#define FFSM2_ENABLE_PLANS
#ifdef VX_DEV_HEADER
#include <ffsm2/machine_dev.hpp>
#else
#include <ffsm2/machine.hpp>
#endif
#include "seqx_common.hpp"
#ifndef VX_CLO
#define VX_CLO 1
#endif
#ifndef VX_CHI
#define VX_CHI 255
#endif
using namespace ffsm2::detail;
using namespace sx;

#if !defined(VX_PART) || VX_PART == 1
// =========================================================================== BitArrayT<C> vs. a set of integers < C
struct SetModel { uint8_t b[32]; void clear() { memset(b, 0, 32); } bool get(int i) const { return (b[i >> 3] >> (i & 7)) & 1; } void set(int i) { b[i >> 3] |= static_cast<uint8_t>(1u << (i & 7)); } void clr(int i) { b[i >> 3] &= static_cast<uint8_t>(~(1u << (i & 7))); }
	bool empty(int C) const { for (int i = 0; i < C; ++i) if (get(i)) return false; return true; } };

template <int C> struct BA {
	using B = BitArrayT<C>;
	static bool agree(const B& b, const SetModel& m, const char* what, const char* rp) {
		for (int i = 0; i < C; ++i) if (b.get(i) != m.get(i)) { violation("get-differs-from-set", rp, "BitArrayT<%d>: get(%d)=%d after %s, the set says %d", C, i, static_cast<int>(b.get(i)), what, static_cast<int>(m.get(i))); return false; }
		if (b.empty() != m.empty(C)) { violation("empty-differs-from-set", rp, "BitArrayT<%d>: empty()=%d after %s although the set %s", C, static_cast<int>(b.empty()), what, m.empty(C) ? "is empty (every get(i) is false)" : "is not empty"); return false; }
		return true;
	}
	// closure over every reachable raw content (small C): ops set(i), clear(i), set(), clear(), &= with a few fixed operands
	static void closure() {
		constexpr int NB = (C + 7) / 8;
		struct Node { B b; SetModel m; };
		Store st; st.init(sizeof(B), sizeof(Node));
		Node n0; n0.m.clear(); bool isnew; st.intern(reinterpret_cast<const uint8_t*>(&n0.b), reinterpret_cast<const uint8_t*>(&n0), &isnew);
		char rp[64]; snprintf(rp, sizeof rp, "bitarray-closure:C=%d", C);
		{ const B fresh; SetModel e; e.clear(); agree(fresh, e, "construction", rp); }
		// operands for &=: built through the API
		B opnd[4]; SetModel opm[4]; for (int k = 0; k < 4; ++k) opm[k].clear();
		opnd[1].set(); for (int i = 0; i < C; ++i) opm[1].set(i);
		for (int i = 0; i < C; i += 2) { opnd[2].set(i); opm[2].set(i); }
		opnd[3].set(C - 1); opm[3].set(C - 1); if (C > 8) { opnd[3].set(7); opm[3].set(7); opnd[3].set(8); opm[3].set(8); }
		for (size_t idx = 0; idx < st.count; ++idx) {
			Node cur; memcpy(static_cast<void*>(&cur), st.snap(idx), sizeof cur);
			auto push = [&](Node& n, const char* what) { ++me().cases; agree(n.b, n.m, what, rp); st.intern(reinterpret_cast<const uint8_t*>(&n.b), reinterpret_cast<const uint8_t*>(&n), &isnew); };
			for (int i = 0; i < C; ++i) {
				{ Node n = cur; n.b.set(i); n.m.set(i); char w[32]; snprintf(w, sizeof w, "set(%d)", i); push(n, w); }
				{ Node n = cur; n.b.clear(i); n.m.clr(i); char w[32]; snprintf(w, sizeof w, "clear(%d)", i); push(n, w); }
			}
			{ Node n = cur; n.b.set(); for (int i = 0; i < C; ++i) n.m.set(i); push(n, "set()"); }
			{ Node n = cur; n.b.clear(); n.m.clear(); push(n, "clear()"); }
			for (int k = 0; k < 4; ++k) { Node n = cur; n.b &= opnd[k]; for (int i = 0; i < C; ++i) if (!opm[k].get(i)) n.m.clr(i); push(n, "&="); }
		}
		me().states += st.count;
		// with C bits there are exactly 2^C distinguishable contents
		if (C <= 20 && st.count != (1ull << C)) violation("closure-size", rp, "BitArrayT<%d>: %zu distinct raw contents reachable, a set over %d elements has %llu (padding bits leak into the state)", C, st.count, C, 1ull << C);
		(void)NB;
		free(st.keys.p); free(st.snaps.p); free(st.hashes.p); free(st.table.p);
	}
	// bounded sequences for large C: seeds x first op (every index) x second op (boundary indices) with full observation
	static void bounded() {
		char rp[64]; snprintf(rp, sizeof rp, "bitarray-bounded:C=%d", C);
		int bidx[16]; int nb = 0; const int cand[] = {0, 1, 6, 7, 8, 9, 15, 16, C / 2, C - 9, C - 8, C - 2, C - 1};
		for (int c : cand) if (c >= 0 && c < C) { bool dup = false; for (int k = 0; k < nb; ++k) dup |= bidx[k] == c; if (!dup) bidx[nb++] = c; }
		const int nseeds = 4 + (C + 7) / 8;
		for (int seed = 0; seed < nseeds; ++seed) {
			B s; SetModel sm; sm.clear();
			if (seed == 1) { s.set(); for (int i = 0; i < C; ++i) sm.set(i); }
			else if (seed == 2) { for (int i = 0; i < C; i += 2) { s.set(i); sm.set(i); } }
			else if (seed == 3) { for (int i = 1; i < C; i += 2) { s.set(i); sm.set(i); } }
			else if (seed >= 4) { const int i = (seed - 4) * 8 < C ? (seed - 4) * 8 : C - 1; s.set(i); sm.set(i); }
			++me().states;
			agree(s, sm, "seed", rp);
			const int nops = 2 * C + 2;
			for (int op = 0; op < nops; ++op) {
				B b = s; SetModel m = sm; char what[48];
				if (op < C) { b.set(op); m.set(op); snprintf(what, sizeof what, "seed %d, set(%d)", seed, op); }
				else if (op < 2 * C) { b.clear(op - C); m.clr(op - C); snprintf(what, sizeof what, "seed %d, clear(%d)", seed, op - C); }
				else if (op == 2 * C) { b.set(); for (int i = 0; i < C; ++i) m.set(i); snprintf(what, sizeof what, "seed %d, set()", seed); }
				else { b.clear(); m.clear(); snprintf(what, sizeof what, "seed %d, clear()", seed); }
				++me().cases;
				if (!agree(b, m, what, rp)) continue;
				for (int k = 0; k < nb; ++k) for (int kind = 0; kind < 2; ++kind) {
					B b2 = b; SetModel m2 = m; if (kind) { b2.clear(bidx[k]); m2.clr(bidx[k]); } else { b2.set(bidx[k]); m2.set(bidx[k]); }
					++me().cases; char w2[96]; snprintf(w2, sizeof w2, "%s, %s(%d)", what, kind ? "clear" : "set", bidx[k]); agree(b2, m2, w2, rp);
				}
				// set-all then clear every index one by one: the set is empty again
				if (op == 2 * C) { B b3 = b; SetModel m3 = m; for (int i = 0; i < C; ++i) { b3.clear(i); m3.clr(i); } ++me().cases; agree(b3, m3, "set(), clear(i) for every i", rp); }
				{ B b4 = b; b4 &= s; SetModel m4 = m; for (int i = 0; i < C; ++i) if (!sm.get(i)) m4.clr(i); ++me().cases; agree(b4, m4, "&= seed", rp); }
			}
		}
	}
};

template <int C> struct BAAll { static void run(int w, int W, int closeUpTo, bool allC) {
	if (C % W == w && !out_of_time()) { snprintf(me().inflight, sizeof me().inflight, "bitarray:C=%d", C);
		if (C <= closeUpTo) BA<C>::closure();
		const bool boundary = C <= 18 || C == 23 || C == 24 || C == 25 || C == 31 || C == 32 || C == 33 || C == 63 || C == 64 || C == 65 || C == 127 || C == 128 || C == 129 || C == 200 || C >= 247;
		if (allC || boundary) BA<C>::bounded(); }
	BAAll<C - 1>::run(w, W, closeUpTo, allC); } };
template <> struct BAAll<VX_CLO - 1> { static void run(int, int, int, bool) {} };

#endif
#if !defined(VX_PART) || VX_PART == 2
// =========================================================================== arrays
struct Elem { int a; char b; };
inline bool operator==(const Elem& x, const Elem& y) { return x.a == y.a && x.b == y.b; }
inline bool operator!=(const Elem& x, const Elem& y) { return !(x == y); }
template <typename T> T mk(int i);
template <> uint8_t mk<uint8_t>(int i) { return static_cast<uint8_t>(i * 7 + 3); }
template <> Elem mk<Elem>(int i) { return Elem{i * 1000003 + 17, static_cast<char>(i)}; }

// a handle-like element: copying duplicates the value, moving takes it away from the source (so a copy that is really a move shows)
struct Tok { int v; Tok() : v(-1) {} explicit Tok(int x) : v(x) {} Tok(const Tok& o) : v(o.v) {} Tok(Tok&& o) noexcept : v(o.v) { o.v = -777; }
	Tok& operator=(const Tok& o) { v = o.v; return *this; } Tok& operator=(Tok&& o) noexcept { v = o.v; o.v = -777; return *this; } };
inline bool operator==(const Tok& x, const Tok& y) { return x.v == y.v; }
inline bool operator!=(const Tok& x, const Tok& y) { return !(x == y); }
template <> Tok mk<Tok>(int i) { return Tok(i * 31 + 5); }
// a record wider than a machine word whose leading bytes are all alike and whose tail differs (a filler that is "almost" one repeated byte)
struct Wide { uint64_t head; uint32_t mid; uint16_t tail; uint8_t last; };
inline bool operator==(const Wide& x, const Wide& y) { return x.head == y.head && x.mid == y.mid && x.tail == y.tail && x.last == y.last; }
inline bool operator!=(const Wide& x, const Wide& y) { return !(x == y); }
template <> Wide mk<Wide>(int i) { return Wide{(i % 3) == 0 ? 0ull : (i % 3) == 1 ? 0xFFFFFFFFFFFFFFFFull : 0x1111111111111111ull, static_cast<uint32_t>((i % 2) ? 0 : i + 1), static_cast<uint16_t>(i * 3 + 7), static_cast<uint8_t>(i + 1)}; }

// an object between two runs of known bytes: the containers never write outside themselves
template <typename A> struct Guarded { uint8_t pre[16]; A obj; uint8_t post[16];
	Guarded() : obj() { memset(pre, 0xE7, sizeof pre); memset(post, 0xE7, sizeof post); }
	explicit Guarded(const A& o) : obj(o) { memset(pre, 0xE7, sizeof pre); memset(post, 0xE7, sizeof post); }
	bool intact() const { for (int i = 0; i < 16; ++i) if (pre[i] != 0xE7 || post[i] != 0xE7) return false; return true; } };

template <typename T, int C> struct SA {
	static void run(const char* tname) {
		using A = StaticArrayT<T, C>;
		char rp[64]; snprintf(rp, sizeof rp, "static-array:%s,C=%d", tname, C);
		Guarded<A> ga; A& a = ga.obj; T model[C];
		if (a.count() != C) violation("static-count", rp, "count()=%d", static_cast<int>(a.count()));
		for (int i = 0; i < C; ++i) { a[i] = mk<T>(i); model[i] = mk<T>(i); }
		++me().states;
		for (int i = 0; i < C; ++i) if (a[i] != model[i]) { violation("static-index", rp, "a[%d] is not the value last stored at %d", i, i); break; }
		// overwriting one index leaves every other alone
		for (int i = 0; i < C; ++i) { A b = a; b[i] = mk<T>(i + 300); ++me().cases; for (int j = 0; j < C; ++j) { const T want = j == i ? mk<T>(i + 300) : model[j]; if (b[j] != want) { violation("static-overwrite-independence", rp, "after a[%d]=x, a[%d] changed", i, j); break; } } }
		{ A b = a; b.fill(mk<T>(77)); ++me().cases; for (int j = 0; j < C; ++j) if (b[j] != mk<T>(77)) { violation("static-fill", rp, "fill() left element %d", j); break; } }
		{ A b = a; b.clear(); ++me().cases; const T f = filler<T>(); for (int j = 0; j < C; ++j) if (b[j] != f) { violation("static-clear", rp, "clear() left element %d", j); break; } if (!b.empty()) violation("static-empty", rp, "empty() false after clear()"); }
		{ const A& ca = a; for (int j = 0; j < C; ++j) if (ca[j] != model[j]) { violation("static-const-index", rp, "const a[%d]", j); break; } }
		{ Guarded<A> gb(a); gb.obj.fill(mk<T>(9)); gb.obj.clear(); if (!gb.intact() || !ga.intact()) violation("static-wrote-outside", rp, "fill()/clear()/stores wrote outside the array"); }
		{ A b(mk<T>(5)); ++me().cases; for (int j = 0; j < C; ++j) if (b[j] != mk<T>(5)) { violation("static-filler-ctor", rp, "filler constructor left element %d", j); break; } }
#ifdef VX_STATIC_ARRAY_ITER
		{ int n = 0; bool ok = true; for (auto it = a.begin(); it != a.end(); ++it, ++n) { if (n >= C || *it != model[n]) { ok = false; break; } } ++me().cases; if (!ok || n != C) violation("static-iteration", rp, "iteration visited %d elements of %d / wrong order", n, C);
		  const A& ca = a; n = 0; ok = true; for (auto it = ca.begin(); it != ca.end(); ++it, ++n) { if (n >= C || *it != model[n]) { ok = false; break; } } if (!ok || n != C) violation("static-const-iteration", rp, "const iteration visited %d of %d", n, C);
		  n = 0; for (const T& x : a) { if (x != model[n]) ok = false; ++n; } if (!ok || n != C) violation("static-range-for", rp, "range-for visited %d of %d", n, C); }
		{ // storing through the mutable iterator is storing into the array
			A b = a; int n = 0; for (auto it = b.begin(); it != b.end(); ++it, ++n) *it = mk<T>(n + 400); ++me().cases;
			for (int j = 0; j < C; ++j) if (b[j] != mk<T>(j + 400)) { violation("static-store-through-iterator", rp, "a[%d] does not hold the value stored through the iterator", j); break; }
			n = 0; for (T& x : b) { x = mk<T>(n + 500); ++n; }
			for (int j = 0; j < C; ++j) if (b[j] != mk<T>(j + 500)) { violation("static-store-through-range-for", rp, "a[%d] does not hold the value stored in a range-for", j); break; }
			// and a store by index is visible to an iterator obtained before it
			auto it = b.begin(); b[0] = mk<T>(600); if (*it != mk<T>(600)) violation("static-iterator-sees-store", rp, "iterator does not see a[0] = x"); }
#endif
	}
};
template <typename T, int C> struct DA {
	static void run(const char* tname) {
		using A = DynamicArrayT<T, C>;
		char rp[64]; snprintf(rp, sizeof rp, "dynamic-array:%s,C=%d", tname, C);
		Guarded<A> ga; A& a = ga.obj; ++me().states;
		if (a.count() != 0 || !a.empty()) violation("dynamic-initial", rp, "fresh array not empty");
		for (int i = 0; i < C; ++i) {
			const T v = mk<T>(i);
			if (i % 3 == 0) { auto idx = a.emplace(v); if (idx != i) violation("dynamic-emplace-index", rp, "emplace #%d returned %d", i, static_cast<int>(idx)); }
			else if (i % 3 == 1) a += v; else { T tmp = v; a += static_cast<T&&>(tmp); }
			++me().cases;
			if (a.count() != i + 1 || a.empty()) { violation("dynamic-count", rp, "count()=%d after %d insertions", static_cast<int>(a.count()), i + 1); break; }
			// insertion order and earlier elements preserved; iteration visits exactly count() elements in order
			int n = 0; bool ok = true; for (auto it = a.begin(); it != a.end(); ++it, ++n) { if (n > i || *it != mk<T>(n)) { ok = false; break; } }
			if (!ok || n != i + 1) { violation("dynamic-iteration", rp, "after %d insertions iteration visited %d / wrong order", i + 1, n); break; }
			for (int j = 0; j <= i; ++j) if (a[j] != mk<T>(j)) { violation("dynamic-index", rp, "a[%d] after %d insertions", j, i + 1); break; }
		}
		{ const A& ca = a; int n = 0; bool ok = true; for (auto it = ca.begin(); it != ca.end(); ++it, ++n) if (*it != mk<T>(n)) ok = false; if (!ok || n != C) violation("dynamic-const-iteration", rp, "const iteration visited %d of %d", n, C); n = 0; for (const T& x : ca) { if (x != mk<T>(n)) ok = false; ++n; } if (!ok || n != C) violation("dynamic-range-for", rp, "range-for"); }
		{ A b = a; b[C / 2] = mk<T>(999); ++me().cases; for (int j = 0; j < C; ++j) { const T want = j == C / 2 ? mk<T>(999) : mk<T>(j); if (b[j] != want) { violation("dynamic-overwrite-independence", rp, "element %d", j); break; } } }
		{ // storing through the mutable iterator is storing into the array
			A b = a; int n = 0; for (auto it = b.begin(); it != b.end(); ++it, ++n) *it = mk<T>(n + 400); ++me().cases;
			for (int j = 0; j < C; ++j) if (b[j] != mk<T>(j + 400)) { violation("dynamic-store-through-iterator", rp, "a[%d] does not hold the value stored through the iterator", j); break; }
			n = 0; for (T& x : b) { x = mk<T>(n + 500); ++n; }
			for (int j = 0; j < C; ++j) if (b[j] != mk<T>(j + 500)) { violation("dynamic-store-through-range-for", rp, "a[%d] does not hold the value stored in a range-for", j); break; }
			auto it = b.begin(); b[0] = mk<T>(600); if (*it != mk<T>(600)) violation("dynamic-iterator-sees-store", rp, "iterator does not see a[0] = x"); }
		{ // inserting a copy of an existing object leaves that object alone (named objects, const or not, and elements of arrays)
			A b; T named = mk<T>(1); const T cnamed = mk<T>(2); ++me().cases;
			b.emplace(named); if (named != mk<T>(1)) violation("dynamic-emplace-consumed-argument", rp, "emplace(x) changed x");
			if (C > 1) { b.emplace(cnamed); }
			if (C > 2) { b += named; if (named != mk<T>(1)) violation("dynamic-append-consumed-argument", rp, "a += x changed x"); }
			if (C > 3) { b.emplace(b[0]); if (b[0] != mk<T>(1) || b[3] != mk<T>(1)) violation("dynamic-emplace-consumed-element", rp, "emplace(a[0]) changed a[0] or stored something else"); }
			if (C > 4) { StaticArrayT<T, 2> fixed; fixed[0] = mk<T>(8); fixed[1] = mk<T>(9); b.emplace(fixed[1]); if (fixed[1] != mk<T>(9) || b[4] != mk<T>(9)) violation("dynamic-emplace-consumed-element", rp, "emplace(fixed[1]) changed the source element"); }
			if (b[0] != mk<T>(1) || (C > 1 && b[1] != mk<T>(2)) || (C > 2 && b[2] != mk<T>(1))) violation("dynamic-emplace-value", rp, "inserted copies differ from their sources"); }
		{ Guarded<A> gb(a); Guarded<A> neighbour(a); A& b = gb.obj; b.clear(); ++me().cases; if (b.count() != 0 || !b.empty()) violation("dynamic-clear", rp, "not empty after clear()"); int n = 0; for (auto it = b.begin(); it != b.end(); ++it) ++n; if (n) violation("dynamic-clear-iteration", rp, "iteration after clear() visited %d", n);
		  if (!gb.intact() || !neighbour.intact() || neighbour.obj.count() != C) violation("dynamic-clear-wrote-outside", rp, "clear() of a full array wrote outside the array (guard bytes or a neighbouring array changed)");
		  { Guarded<A> gh; A& hb = gh.obj; for (int i = 0; i < C / 2; ++i) hb.emplace(mk<T>(i)); hb.clear(); if (!gh.intact()) violation("dynamic-clear-wrote-outside", rp, "clear() of a half-full array wrote outside the array"); }
		  // refill after clear: capacity fully available again
		  for (int i = 0; i < C; ++i) b.emplace(mk<T>(i + 1)); if (b.count() != C || b[C - 1] != mk<T>(C)) violation("dynamic-refill", rp, "refill after clear()"); }
		{ // appending another array
			DynamicArrayT<T, (C + 1) / 2> half; for (int i = 0; i < (C + 1) / 2; ++i) half.emplace(mk<T>(i + 50));
			A b; for (int i = 0; i < C / 2; ++i) b.emplace(mk<T>(i)); b += half; ++me().cases;
			bool ok = b.count() == C; for (int i = 0; ok && i < C / 2; ++i) ok = b[i] == mk<T>(i); for (int i = 0; ok && i < (C + 1) / 2; ++i) ok = b[C / 2 + i] == mk<T>(i + 50);
			if (!ok) violation("dynamic-append-array", rp, "operator+=(array)");
		}
		{ // assigning an array to itself (through an alias) leaves it as it is; assigning another array copies it
			A b = a; A& alias = b; b = alias; ++me().cases; bool ok = b.count() == C; for (int j = 0; ok && j < C; ++j) ok = b[j] == mk<T>(j);
			if (!ok) violation("dynamic-self-assignment", rp, "a = a changed the array (count %d of %d)", static_cast<int>(b.count()), C);
			A c2; c2 = a; ok = c2.count() == C; for (int j = 0; ok && j < C; ++j) ok = c2[j] == mk<T>(j); if (!ok) violation("dynamic-assignment", rp, "b = a does not copy the array"); }
		if (!ga.intact()) violation("dynamic-wrote-outside", rp, "filling the array to capacity wrote outside it");
	}
};
template <int C> struct ArrAll { static void run(int w, int W) {
	if (C % W == w && !out_of_time()) { snprintf(me().inflight, sizeof me().inflight, "arrays:C=%d", C); SA<uint8_t, C>::run("u8"); SA<Elem, C>::run("struct"); DA<uint8_t, C>::run("u8"); DA<Elem, C>::run("struct"); DA<Tok, C>::run("handle"); if (C <= 40 || C % 32 == 31) { SA<Wide, C>::run("wide"); DA<Wide, C>::run("wide"); } }
	ArrAll<C - 1>::run(w, W); } };
template <> struct ArrAll<VX_CLO - 1> { static void run(int, int) {} };

#endif
#if !defined(VX_PART) || VX_PART == 3
// =========================================================================== TaskListT<Payload, C> closure over the full internal state
struct P4 { int32_t v; };
template <typename P> struct TaskMk;
template <> struct TaskMk<void> { template <typename L> static ffsm2::Long emplace(L& l, int lab) { return l.emplace(static_cast<ffsm2::StateID>(lab), static_cast<ffsm2::StateID>(lab + 1)); } template <typename T> static bool same(const T& t, int lab) { return t.origin == lab && t.destination == lab + 1; } };
template <> struct TaskMk<P4> { template <typename L> static ffsm2::Long emplace(L& l, int lab) { return l.emplace(static_cast<ffsm2::StateID>(lab), static_cast<ffsm2::StateID>(lab + 1), P4{lab * 65537 + 11}); } template <typename T> static bool same(const T& t, int lab) { return t.origin == lab && t.destination == lab + 1 && t.payload() && t.payload()->v == lab * 65537 + 11; } };

template <typename P, int C> struct TL {
	using L = TaskListT<P, C>;
	struct Node { L l; int8_t label[C]; uint8_t next; };    // label[i] = -1 free, else the label stored in slot i
	static constexpr int NLAB = 5;
	static bool structure(const L& l, const int8_t* label, const char*& why) {
		int occ = 0; for (int i = 0; i < C; ++i) if (label[i] >= 0) ++occ;
		if (l.count() != occ) { why = "count() differs from the number of live tasks"; return false; }
		if ((occ == 0) != l.empty()) { why = "empty() inconsistent"; return false; }
		for (int i = 0; i < C; ++i) if (label[i] >= 0 && !TaskMk<P>::same(l[static_cast<ffsm2::Long>(i)], label[i])) { why = "content of a live slot changed"; return false; }
		// the free list, followed exactly where the library follows it
		if (l._count < C) {
			bool vac[C]; for (int i = 0; i < C; ++i) vac[i] = false;
			int c = l._vacantHead; if (c >= C) { why = "vacant head out of range"; return false; }
			if (l._vacantTail >= C) { why = "vacant tail out of range"; return false; }
			int steps = 0;
			while (true) { if (label[c] >= 0) { why = "a live slot is in the free list"; return false; } if (vac[c]) { why = "free list loops"; return false; } vac[c] = true; if (c == l._vacantTail) break; const int f = l._items[c].next; if (f >= C) { why = "broken free-list link"; return false; } if (l._items[f].prev != c) { why = "free list back link"; return false; } c = f; if (++steps > C) { why = "free list too long"; return false; } }
			// every slot that was ever used and is not live must be reusable (no leak)
			for (int i = 0; i < C; ++i) if (label[i] < 0 && !vac[i] && i < l._last) { why = "slot leaked: neither live nor in the free list"; return false; }
		} else if (l._vacantHead != L::INVALID || l._vacantTail != L::INVALID) { why = "full list still advertises a vacant slot"; return false; }
		return true;
	}
	static void run(const char* pname) {
		Store st; st.init(sizeof(L) + C + 1, sizeof(Node));
		auto keyOf = [](const Node& n, uint8_t* k) { memcpy(k, &n.l, sizeof(L)); memcpy(k + sizeof(L), n.label, C); k[sizeof(L) + C] = n.next; };
		Node n0; memset(static_cast<void*>(&n0), 0, sizeof n0); new (&n0.l) L(); for (int i = 0; i < C; ++i) n0.label[i] = -1; n0.next = 0;
		uint8_t key[sizeof(L) + C + 1]; keyOf(n0, key); bool isnew; st.intern(key, reinterpret_cast<const uint8_t*>(&n0), &isnew);
		char rp[64]; snprintf(rp, sizeof rp, "tasklist:%s,C=%d", pname, C);
		for (size_t idx = 0; idx < st.count; ++idx) {
			if ((idx & 4095) == 0 && out_of_time()) break;
			Node cur; memcpy(static_cast<void*>(&cur), st.snap(idx), sizeof cur);
			int occ = 0; for (int i = 0; i < C; ++i) if (cur.label[i] >= 0) ++occ;
			// ops: emplace, remove(i) for every live slot, clear
			for (int op = -2; op < C; ++op) {
				if (op >= 0 && cur.label[op] < 0) continue;
				Node n = cur; const char* why = ""; ++me().cases;
				if (op == -2) {
					const int lab = n.next; n.next = static_cast<uint8_t>((n.next + 1) % NLAB);
					const ffsm2::Long slot = TaskMk<P>::emplace(n.l, lab);
					if (occ < C) { if (slot == L::INVALID || slot >= C) { violation("emplace-failed-below-capacity", rp, "emplace returned %d with %d of %d tasks", static_cast<int>(slot), occ, C); continue; } if (n.label[slot] >= 0) { violation("emplace-overwrote-live-slot", rp, "emplace returned live slot %d", static_cast<int>(slot)); continue; } n.label[slot] = static_cast<int8_t>(lab); }
					else { if (slot != L::INVALID) { violation("emplace-succeeded-on-full", rp, "emplace returned %d on a full list", static_cast<int>(slot)); continue; } if (memcmp(&n.l, &cur.l, sizeof(L))) { violation("emplace-on-full-modified-list", rp, "failed emplace changed the list"); continue; } }
				} else if (op == -1) { n.l.clear(); for (int i = 0; i < C; ++i) n.label[i] = -1; }
				else { n.l.remove(static_cast<ffsm2::Long>(op)); n.label[op] = -1; }
				if (!structure(n.l, n.label, why)) { violation("structure", rp, "TaskListT<%s,%d> after op %d from state %zu: %s", pname, C, op, idx, why); continue; }
				uint8_t k2[sizeof(L) + C + 1]; keyOf(n, k2); st.intern(k2, reinterpret_cast<const uint8_t*>(&n), &isnew);
			}
			// from this state: drain completely, then the full capacity must be available again
			{ Node n = cur; for (int i = 0; i < C; ++i) if (n.label[i] >= 0) { n.l.remove(static_cast<ffsm2::Long>(i)); n.label[i] = -1; }
			  int got = 0; for (int i = 0; i < C; ++i) { const ffsm2::Long s = TaskMk<P>::emplace(n.l, i % NLAB); if (s != L::INVALID && s < C && n.label[s] < 0) { n.label[s] = static_cast<int8_t>(i % NLAB); ++got; } }
			  ++me().cases; if (got != C || n.l.count() != C) violation("capacity-not-restored", rp, "after draining state %zu only %d of %d slots could be refilled", idx, got, C); }
		}
		me().states += st.count;
		free(st.keys.p); free(st.snaps.p); free(st.hashes.p); free(st.table.p);
	}
	// bounded scripts for large capacities: fill / drain in several orders / recycle
	static void scripts(const char* pname) {
		char rp[64]; snprintf(rp, sizeof rp, "tasklist-script:%s,C=%d", pname, C);
		for (int order = 0; order < 4; ++order) {
			L l; int8_t label[C]; for (int i = 0; i < C; ++i) label[i] = -1; const char* why = "";
			for (int round = 0; round < 3; ++round) {
				for (int i = 0; i < C; ++i) { const ffsm2::Long s = TaskMk<P>::emplace(l, i % 100); ++me().cases; if (s == L::INVALID || s >= C || label[s] >= 0) { violation("script-emplace", rp, "order %d round %d insertion %d returned %d", order, round, i, static_cast<int>(s)); return; } label[s] = static_cast<int8_t>(i % 100); }
				if (TaskMk<P>::emplace(l, 1) != L::INVALID) { violation("script-overfull", rp, "emplace beyond capacity succeeded"); return; }
				if (!structure(l, label, why)) { violation("script-structure", rp, "full: %s", why); return; }
				for (int k = 0; k < C; ++k) { int i = order == 0 ? k : order == 1 ? C - 1 - k : order == 2 ? ((k * 2 < C) ? k * 2 : (k * 2 - C) | 1) % C : (k * 7 + 3) % C;
					if (order >= 2) { int tries = 0; while (label[i] < 0 && tries++ < C) i = (i + 1) % C; }
					if (label[i] < 0) continue; l.remove(static_cast<ffsm2::Long>(i)); label[i] = -1; ++me().cases;
					if ((k & 15) == 0 && !structure(l, label, why)) { violation("script-structure", rp, "order %d after removing %d: %s", order, i, why); return; } }
				if (l.count() != 0 || !structure(l, label, why)) { violation("script-drain", rp, "order %d: count()=%d after draining", order, static_cast<int>(l.count())); return; }
			}
			++me().states;
		}
	}
};

#endif
static const char* g_what = "bitarray";
int main(int argc, char** argv) {
	// strip --what before the common parser
	int n = 1; for (int i = 1; i < argc; ++i) { if (!strncmp(argv[i], "--what=", 7)) g_what = argv[i] + 7; else argv[n++] = argv[i]; }
	Args a = parse_args(n, argv);
	init(a.workers);
	if (a.replay) printf("replay: re-running the deterministic part '%s' (%s)\n", g_what, a.replay);
	char extra[256] = "";
	if (false) {}
#if !defined(VX_PART) || VX_PART == 1
	else if (!strcmp(g_what, "bitarray")) {
		const int closeUpTo = a.tier ? 16 : 12;
		parallel([&](int w, int W) { BAAll<VX_CHI>::run(w, W, closeUpTo, a.tier != 0); });
		g_w = g_W; sample("BitArrayT<C>, C=1..%d: closure over every reachable raw content under set(i)/clear(i)/set()/clear()/&=, get(i) for all i and empty() compared with a set of integers after every operation; expected 2^C states", closeUpTo);
		sample("BitArrayT<C>, C up to 255: seeds {empty, full, even, odd, one bit per unit} x every single operation x boundary second operation, e.g. C=12: set(); clear(i) for all i => empty() must be true");
		snprintf(extra, sizeof extra, ",\"closure_up_to\":%d,\"all_capacities_bounded\":%s", closeUpTo, a.tier ? "true" : "false");
	}
#endif
#if !defined(VX_PART) || VX_PART == 2
	else if (!strcmp(g_what, "arrays")) {
		parallel([&](int w, int W) { ArrAll<VX_CHI>::run(w, W); });
		g_w = g_W; sample("StaticArrayT<T,C> / DynamicArrayT<T,C>, T in {uint8_t, struct}, C = 1..255: index/overwrite independence, fill, clear, emplace/+= up to capacity with order and count checked after every insertion, iteration");
#ifdef VX_STATIC_ARRAY_ITER
		snprintf(extra, sizeof extra, ",\"static_array_iteration\":true");
#else
		snprintf(extra, sizeof extra, ",\"static_array_iteration\":false");
#endif
	}
#endif
#if !defined(VX_PART) || VX_PART == 3
	else if (!strcmp(g_what, "tasklist")) {
		parallel([&](int w, int W) {
			int job = 0; auto mine = [&]() { return (job++ % W) == w; };
			if (mine()) TL<void, 1>::run("void"); if (mine()) TL<void, 2>::run("void"); if (mine()) TL<void, 3>::run("void"); if (mine()) TL<void, 4>::run("void"); if (mine()) TL<void, 5>::run("void");
			if (mine()) TL<P4, 1>::run("P4"); if (mine()) TL<P4, 2>::run("P4"); if (mine()) TL<P4, 3>::run("P4"); if (mine()) TL<P4, 4>::run("P4");
			if (a.tier) { if (mine()) TL<void, 6>::run("void"); if (mine()) TL<P4, 5>::run("P4"); }
			if (mine()) TL<void, 7>::scripts("void"); if (mine()) TL<void, 8>::scripts("void"); if (mine()) TL<void, 16>::scripts("void"); if (mine()) TL<void, 100>::scripts("void"); if (mine()) TL<void, 254>::scripts("void"); if (mine()) TL<void, 255>::scripts("void");
			if (mine()) TL<P4, 7>::scripts("P4"); if (mine()) TL<P4, 254>::scripts("P4"); if (mine()) TL<P4, 255>::scripts("P4");
		});
		g_w = g_W; sample("TaskListT<void|P4, C>: closure over the full internal state (indices and links of every slot) under emplace / remove(i) for every live slot / clear, C = 1..%d; after every op count(), slot contents, free-list walk; from every state drain-and-refill to capacity", a.tier ? 6 : 5);
		sample("TaskListT<*, C> for C in {7, 8, 16, 100, 254, 255}: fill to capacity, emplace on full returns INVALID, drain in four different orders, three rounds of slot recycling");
	}
#endif
	else die("unknown --what=%s", g_what);
	write_result(a.out, g_what, extra);
	if (a.replay) { Totals t = totals(); for (int w = 0; w <= g_W; ++w) for (int i = 0; i < g_sh[w].nfirst; ++i) printf("  FLAG %s\n", g_sh[w].first[i]); printf("replay: %lu violation(s)\n", t.bad); }
	return totals().bad ? 1 : 0;
}
