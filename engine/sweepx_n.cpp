// sweepx_n.cpp -- configuration sweep over the number of states (C14 dispatch, C12 serialization), one build per N.
//   -DVX_NSTATES=<1..255>  -DVX_HEAD=<0|1>  [-DVX_MANUAL=1 -DFFSM2_ENABLE_SERIALIZATION=]
// C14: stateId<T>() == declaration position for every state, head id invalid, state 0 initial; for EVERY ordered pair (j,k)
//      immediateChangeTo(k) from j delivers exactly exitGuard(j), entryGuard(k), exit(j), enter(k) (reenter(k) when j==k) to the very
//      objects access<St<j>>() / access<St<k>>() return; update/react/query then reach k (and the root head) only.
// C12: every (saver activity, loader activity) pair incl. inactive: save() leaves the saver bit-identical, stays inside BIT_CAPACITY,
//      buffers equal iff activities equal, load() performs the minimal lifecycle and consults no guard.
#ifdef VX_DEV_HEADER
#include <ffsm2/machine_dev.hpp>
#else
#include <ffsm2/machine.hpp>
#endif
#include "seqx_common.hpp"
#include <utility>
using namespace sx;

#ifndef VX_NSTATES
#define VX_NSTATES 5
#endif
#ifndef VX_HEAD
#define VX_HEAD 1
#endif
#ifndef VX_MANUAL
#define VX_MANUAL 0
#endif
#ifdef FFSM2_ENABLE_SERIALIZATION
#define VX_SER 1
#else
#define VX_SER 0
#endif
#ifdef FFSM2_ENABLE_PLANS
#define VX_PLANS 1
#else
#define VX_PLANS 0
#endif
#ifdef FFSM2_ENABLE_TRANSITION_HISTORY
#define VX_HIST 1
#else
#define VX_HIST 0
#endif
static constexpr int N = VX_NSTATES;

enum Meth : uint8_t { M_EG = 1, M_ENTER, M_REENTER, M_PRE_UPDATE, M_UPDATE, M_POST_UPDATE, M_PRE_REACT, M_REACT, M_QUERY, M_POST_REACT, M_XG, M_EXIT };
static const char* const MN[] = {"?", "entryGuard", "enter", "reenter", "preUpdate", "update", "postUpdate", "preReact", "react", "query", "postReact", "exitGuard", "exit"};
struct Rec { int16_t sid; uint8_t meth; uint8_t ctlsid; const void* self; };
static Rec g_tr[64]; static int g_n = 0; static bool g_over = false;
inline void rec(int sid, uint8_t meth, uint8_t ctlsid, const void* self) { if (g_n < 64) g_tr[g_n++] = Rec{static_cast<int16_t>(sid), meth, ctlsid, self}; else g_over = true; }

struct EvA { int v; }; struct QA { int v; };
#if VX_MANUAL
using Cfg0 = ffsm2::Config::ManualActivation;
#else
using Cfg0 = ffsm2::Config;
#endif
// -DVX_TASKCAP=<n>: a task capacity chosen by the user, smaller than the number of states (per-state plan bookkeeping must not be sized by it)
#if defined(VX_TASKCAP) && defined(FFSM2_ENABLE_PLANS)
using Cfg = Cfg0::TaskCapacityN<VX_TASKCAP>;
static constexpr int TASKCAP = VX_TASKCAP;
#else
using Cfg = Cfg0;
static constexpr int TASKCAP = VX_NSTATES;
#endif
using M = ffsm2::MachineT<Cfg>;
template <int I> struct St; struct Rt;
template <typename Seq> struct Mk;
#if VX_HEAD
template <size_t... I> struct Mk<std::index_sequence<I...>> { using FSM = M::Root<Rt, St<static_cast<int>(I)>...>; };
#else
template <size_t... I> struct Mk<std::index_sequence<I...>> { using FSM = M::PeerRoot<St<static_cast<int>(I)>...>; };
#endif
using FSM = Mk<std::make_index_sequence<N>>::FSM;

#define CBS(SID) \
	void entryGuard(GuardControl& c) { rec(SID, M_EG, c.stateId(), this); } \
	void enter(PlanControl& c) { rec(SID, M_ENTER, c.stateId(), this); } \
	void reenter(PlanControl& c) { rec(SID, M_REENTER, c.stateId(), this); } \
	void preUpdate(FullControl& c) { rec(SID, M_PRE_UPDATE, c.stateId(), this); } \
	void update(FullControl& c) { rec(SID, M_UPDATE, c.stateId(), this); } \
	void postUpdate(FullControl& c) { rec(SID, M_POST_UPDATE, c.stateId(), this); } \
	void preReact(const EvA&, FullControl& c) { rec(SID, M_PRE_REACT, c.stateId(), this); } \
	void react(const EvA&, FullControl& c) { rec(SID, M_REACT, c.stateId(), this); } \
	void postReact(const EvA&, FullControl& c) { rec(SID, M_POST_REACT, c.stateId(), this); } \
	void query(QA&, ConstControl& c) const { rec(SID, M_QUERY, c.stateId(), this); } \
	void exitGuard(GuardControl& c) { rec(SID, M_XG, c.stateId(), this); } \
	void exit(PlanControl& c) { rec(SID, M_EXIT, c.stateId(), this); }
static bool g_succeed_in_update = false; static int g_plan_ok = 0, g_plan_fail = 0;
static bool g_veto_entry = false;   // every state's entry guard vetoes while set
// every state object carries a few bytes of user data: the library never touches them
template <int I> struct St : FSM::State {
	uint8_t mark[3] = {static_cast<uint8_t>(0xC0 ^ I), 0x5A, static_cast<uint8_t>(0xA5 + I)};
	void entryGuard(GuardControl& c) { rec(I, M_EG, c.stateId(), this); if (g_veto_entry) c.cancelPendingTransition(); }
	void enter(PlanControl& c) { rec(I, M_ENTER, c.stateId(), this); }
	void reenter(PlanControl& c) { rec(I, M_REENTER, c.stateId(), this); }
	void preUpdate(FullControl& c) { rec(I, M_PRE_UPDATE, c.stateId(), this); }
	void update(FullControl& c) { rec(I, M_UPDATE, c.stateId(), this);
#if VX_PLANS
		if (g_succeed_in_update) c.succeed();
#endif
	}
	void postUpdate(FullControl& c) { rec(I, M_POST_UPDATE, c.stateId(), this); }
	void preReact(const EvA&, FullControl& c) { rec(I, M_PRE_REACT, c.stateId(), this); }
	void react(const EvA&, FullControl& c) { rec(I, M_REACT, c.stateId(), this); }
	void postReact(const EvA&, FullControl& c) { rec(I, M_POST_REACT, c.stateId(), this); }
	void query(QA&, ConstControl& c) const { rec(I, M_QUERY, c.stateId(), this); }
	void exitGuard(GuardControl& c) { rec(I, M_XG, c.stateId(), this); }
	void exit(PlanControl& c) { rec(I, M_EXIT, c.stateId(), this); }
};
#if VX_HEAD
struct Rt : FSM::State { CBS(-1)
#if VX_PLANS
	void planSucceeded(FullControl&) { ++g_plan_ok; }
	void planFailed(FullControl&) { ++g_plan_fail; }
#endif
};
#endif
using Inst = FSM::Instance;

// compile-time part of C14
template <int I> struct IdCheck { static_assert(FSM::stateId<St<I>>() == I, "stateId<T>() is not the declaration position"); static_assert(Inst::template stateId<St<I>>() == I, "Instance::stateId"); using Next = typename IdCheck<I - 1>::Next; };
template <> struct IdCheck<-1> { using Next = void; };
using IdAll = IdCheck<N - 1>::Next;
#if VX_HEAD
static_assert(FSM::stateId<Rt>() == ffsm2::INVALID_STATE_ID, "the root head must have the invalid id");
#endif
static_assert(N - 1 < (1 << ffsm2::bitWidth(N)), "bitWidth(N) cannot encode every state index");
#if VX_SER
// the declared capacity suffices for the activity bit plus an index of every state (a larger buffer is fine; what save() really
// writes is checked against the declared capacity and the guard bytes at run time)
static_assert(Inst::SerialBuffer::BIT_CAPACITY >= 1 + (N > 1 ? ffsm2::bitWidth(N - 1) : 0), "buffer capacity cannot hold the activity bit and every state index");
#endif

static const void* g_obj[N + 1];
template <int I> struct FillObj { static void run(Inst& m) { g_obj[I] = &m.access<St<I>>(); FillObj<I - 1>::run(m); } };
template <> struct FillObj<-1> { static void run(Inst&) {} };
template <int I> struct Marks { static int bad(const Inst& m) { const St<I>& r = m.access<St<I>>(); if (r.mark[0] != static_cast<uint8_t>(0xC0 ^ I) || r.mark[1] != 0x5A || r.mark[2] != static_cast<uint8_t>(0xA5 + I)) return I; return Marks<I - 1>::bad(m); } };
template <> struct Marks<-1> { static int bad(const Inst&) { return -1; } };
static void check_marks(const Inst& m, const char* rp, const char* when) { const int b = Marks<N - 1>::bad(m); ++me().cases; if (b >= 0) violation("state-data-damaged", rp, "N=%d: the user data kept in state %d was modified by the library (%s)", N, b, when); }
// the const overload of access<T>() names the same objects
template <int I> struct ConstObj { static int run(const Inst& m) { const St<I>& r = m.access<St<I>>(); if (static_cast<const void*>(&r) != g_obj[I]) return I; return ConstObj<I - 1>::run(m); } };
template <> struct ConstObj<-1> { static int run(const Inst&) { return -1; } };

// the type-parameterised forms of the same calls: what = 0 immediateChangeTo<T>(), 1 changeTo<T>(), 2 isActive<T>() (result in *out)
template <int I> struct TForm { static void run(Inst& m, int k, int what, bool* out) { if (k == I) { if (what == 0) m.template immediateChangeTo<St<I>>(); else if (what == 1) m.template changeTo<St<I>>(); else *out = m.template isActive<St<I>>(); } else TForm<I - 1>::run(m, k, what, out); } };
template <> struct TForm<-1> { static void run(Inst&, int, int, bool*) {} };

alignas(64) static unsigned char g_store[2][sizeof(Inst) + 64];
static Inst* inst(int s = 0) { return reinterpret_cast<Inst*>(g_store[s]); }
static EvA g_ev{1}; static QA g_q{2};

static bool expect_trace(const char* what, int j, int k, const Rec* want, int nwant, const char* rp, const char* pred = "dispatch") {
	bool ok = g_n == nwant && !g_over;
	for (int i = 0; ok && i < nwant; ++i) ok = g_tr[i].sid == want[i].sid && g_tr[i].meth == want[i].meth;
	if (!ok) { char got[400]; int p = 0; for (int i = 0; i < g_n && i < 10 && p < 380; ++i) p += snprintf(got + p, sizeof got - p, " %s(%d)", MN[g_tr[i].meth], g_tr[i].sid); got[p] = 0;
		char exp[400]; p = 0; for (int i = 0; i < nwant && p < 380; ++i) p += snprintf(exp + p, sizeof exp - p, " %s(%d)", MN[want[i].meth], want[i].sid); exp[p] = 0;
		violation(pred, rp, "N=%d %s %d->%d: delivered [%s ], expected [%s ]", N, what, j, k, got, exp); return false; }
	for (int i = 0; i < g_n; ++i) {
		const int sid = g_tr[i].sid;
		const void* obj = sid < 0 ? g_obj[N] : g_obj[sid];
		if (g_tr[i].self != obj) { violation("access-identity", rp, "N=%d %s %d->%d: %s ran on an object that is not access<St<%d>>()", N, what, j, k, MN[g_tr[i].meth], sid); return false; }
		const uint8_t wantCtl = sid < 0 ? 255 : static_cast<uint8_t>(sid);
		if (g_tr[i].ctlsid != wantCtl) { violation("control-stateId", rp, "N=%d %s: control.stateId()=%d inside %s of state %d", N, what, g_tr[i].ctlsid, MN[g_tr[i].meth], sid); return false; }
	}
	return true;
}

static void activate(int slot) {
	memset(g_store[slot], 0xA7, sizeof g_store[slot]);
	g_n = 0; g_over = false;
	new (g_store[slot]) Inst();
#if VX_MANUAL
	inst(slot)->enter();
#endif
}

static void dispatch_sweep() {
	char rp[64]; snprintf(rp, sizeof rp, "dispatch:N=%d,head=%d", N, VX_HEAD);
	activate(0); Inst& m = *inst(0);
	FillObj<N - 1>::run(m);
#if VX_HEAD
	g_obj[N] = &m.access<Rt>();
	{ const Inst& cm = m; const Rt& rr = cm.access<Rt>(); if (static_cast<const void*>(&rr) != g_obj[N]) violation("access-identity", rp, "N=%d: access<Head>() on a const machine is not the object access<Head>() names on the machine itself", N); }
#endif
	{ const int bad = ConstObj<N - 1>::run(m); ++me().cases; if (bad >= 0) violation("access-identity", rp, "N=%d: access<St<%d>>() on a const machine is not the object whose callbacks run", N, bad); }
	{ // activation: root entry guard + initial state's entry guard, root enter, state 0 enter
		Rec want[4]; int n = 0;
		if (VX_HEAD) want[n++] = Rec{-1, M_EG, 0, nullptr};
		want[n++] = Rec{0, M_EG, 0, nullptr};
		if (VX_HEAD) want[n++] = Rec{-1, M_ENTER, 0, nullptr};
		want[n++] = Rec{0, M_ENTER, 0, nullptr};
		++me().cases; expect_trace("activation", -1, 0, want, n, rp, "initial-state");
		if (m.activeStateId() != 0) violation("initial-state", rp, "N=%d: state %d active after activation, the first declared state must be", N, m.activeStateId());
	}
	for (int j = 0; j < N; ++j) for (int k = 0; k < N; ++k) {
		// bring the machine to j (cheaply: replaying the pair (prev,j) is itself one of the pairs under test)
		if (m.activeStateId() != j) { g_n = 0; m.immediateChangeTo(static_cast<ffsm2::StateID>(j)); if (m.activeStateId() != j) { violation("dispatch", rp, "N=%d: cannot reach state %d", N, j); return; } }
		g_n = 0; g_over = false;
		// rows j = 1 and j = N-2 use immediateChangeTo<T>(), row j = 2 uses changeTo<T>() followed by the processing half of update()
		const int form = (j == 1 || j == N - 2) ? 1 : (j == 2 ? 2 : 0);
		if (form == 1) TForm<N - 1>::run(m, k, 0, nullptr);
		else if (form == 2) { TForm<N - 1>::run(m, k, 1, nullptr); if (m.activeStateId() != j) violation("dispatch-activity", rp, "N=%d: changeTo<St<%d>>() changed the active state at once", N, k); m.update(); // phases of j first: drop them from the trace
			int w = 0; for (int i = 0; i < g_n; ++i) if (g_tr[i].meth == M_XG || g_tr[i].meth == M_EG || g_tr[i].meth == M_ENTER || g_tr[i].meth == M_REENTER || g_tr[i].meth == M_EXIT) g_tr[w++] = g_tr[i]; g_n = w; }
		else m.immediateChangeTo(static_cast<ffsm2::StateID>(k));
		++me().cases;
		Rec want[4]; int n = 0;
		want[n++] = Rec{static_cast<int16_t>(j), M_XG, 0, nullptr}; want[n++] = Rec{static_cast<int16_t>(k), M_EG, 0, nullptr};
		if (j == k) want[n++] = Rec{static_cast<int16_t>(k), M_REENTER, 0, nullptr}; else { want[n++] = Rec{static_cast<int16_t>(j), M_EXIT, 0, nullptr}; want[n++] = Rec{static_cast<int16_t>(k), M_ENTER, 0, nullptr}; }
		expect_trace("immediateChangeTo", j, k, want, n, rp);   // a mismatch is reported; the phases are examined all the same
		if (m.activeStateId() != k) { violation("dispatch-activity", rp, "N=%d: immediateChangeTo(%d) from %d leaves %d active", N, k, j, m.activeStateId()); continue; }
		for (int q = 0; q < N; q += (N > 16 ? 7 : 1)) if (m.isActive(static_cast<ffsm2::StateID>(q)) != (q == k)) { violation("dispatch-isActive", rp, "N=%d: isActive(%d) wrong with %d active", N, q, k); break; }
		if (j == 0 || j == N - 1) for (int q = 0; q < N; q += (N > 16 ? 5 : 1)) { bool a = false; TForm<N - 1>::run(m, q, 2, &a); if (a != (q == k)) { violation("dispatch-isActive", rp, "N=%d: isActive<St<%d>>() wrong with %d active", N, q, k); break; } }
		// the phases reach k only (once per destination is enough: they do not depend on where we came from; do it for the first j and the neighbours)
		if (j == 0 || j == k || j == N - 1 || j == k + 1) {
			g_n = 0; m.update(); ++me().cases;
			Rec wu[6]; int u = 0; if (VX_HEAD) wu[u++] = Rec{-1, M_PRE_UPDATE, 0, nullptr}; wu[u++] = Rec{static_cast<int16_t>(k), M_PRE_UPDATE, 0, nullptr}; if (VX_HEAD) wu[u++] = Rec{-1, M_UPDATE, 0, nullptr}; wu[u++] = Rec{static_cast<int16_t>(k), M_UPDATE, 0, nullptr}; wu[u++] = Rec{static_cast<int16_t>(k), M_POST_UPDATE, 0, nullptr}; if (VX_HEAD) wu[u++] = Rec{-1, M_POST_UPDATE, 0, nullptr};
			expect_trace("update", k, k, wu, u, rp, "dispatch-phase");
			g_n = 0; m.react(g_ev); ++me().cases;
			u = 0; if (VX_HEAD) wu[u++] = Rec{-1, M_PRE_REACT, 0, nullptr}; wu[u++] = Rec{static_cast<int16_t>(k), M_PRE_REACT, 0, nullptr}; if (VX_HEAD) wu[u++] = Rec{-1, M_REACT, 0, nullptr}; wu[u++] = Rec{static_cast<int16_t>(k), M_REACT, 0, nullptr}; wu[u++] = Rec{static_cast<int16_t>(k), M_POST_REACT, 0, nullptr}; if (VX_HEAD) wu[u++] = Rec{-1, M_POST_REACT, 0, nullptr};
			expect_trace("react", k, k, wu, u, rp, "dispatch-phase");
			g_n = 0; m.query(g_q); ++me().cases;
			u = 0; if (VX_HEAD) wu[u++] = Rec{-1, M_QUERY, 0, nullptr}; wu[u++] = Rec{static_cast<int16_t>(k), M_QUERY, 0, nullptr};
			expect_trace("query", k, k, wu, u, rp, "dispatch-phase");
			if (m.activeStateId() != k) violation("dispatch-activity", rp, "N=%d: update/react/query moved the machine from %d to %d", N, k, m.activeStateId());
		}
	}
	check_marks(m, rp, "after the dispatch sweep");
	me().states += N;
#if !VX_MANUAL
	g_n = 0; m.~Inst();
	{ Rec want[2]; int n = 0; const int a = N - 1; want[n++] = Rec{static_cast<int16_t>(a), M_EXIT, 0, nullptr}; if (VX_HEAD) want[n++] = Rec{-1, M_EXIT, 0, nullptr}; ++me().cases; expect_trace("destruction", a, -1, want, n, rp); }
#else
	g_n = 0; m.exit();
	{ Rec want[2]; int n = 0; const int a = N - 1; want[n++] = Rec{static_cast<int16_t>(a), M_EXIT, 0, nullptr}; if (VX_HEAD) want[n++] = Rec{-1, M_EXIT, 0, nullptr}; ++me().cases; expect_trace("exit()", a, -1, want, n, rp); if (m.isActive()) violation("dispatch-activity", rp, "active after exit()"); }
	// re-activation: whatever happened during the previous activation -- a plain one, one that ended in state k, one that was left
	// with a request to k still unprocessed -- the next enter() starts in the first declared state and runs only its callbacks
	for (int mode = 0; mode < 3; ++mode) for (int k = 0; k < N; k += (mode == 0 ? N : (N > 16 ? 5 : 1))) {
		g_n = 0; m.enter(); ++me().cases;
		{ Rec want[4]; int n = 0; if (VX_HEAD) want[n++] = Rec{-1, M_EG, 0, nullptr}; want[n++] = Rec{0, M_EG, 0, nullptr}; if (VX_HEAD) want[n++] = Rec{-1, M_ENTER, 0, nullptr}; want[n++] = Rec{0, M_ENTER, 0, nullptr};
			char what[48]; snprintf(what, sizeof what, "enter() again (mode %d, k=%d)", mode, k); expect_trace(what, -1, 0, want, n, rp, "initial-state");
			if (m.activeStateId() != 0) { violation("initial-state", rp, "N=%d: second activation starts in state %d, the first declared state must be (previous activation: %s %d)", N, m.activeStateId(), mode == 2 ? "left with an unprocessed request to" : "ended in", k); } }
		g_n = 0; m.update(); ++me().cases;
		{ Rec wu[6]; int u = 0; if (VX_HEAD) wu[u++] = Rec{-1, M_PRE_UPDATE, 0, nullptr}; wu[u++] = Rec{0, M_PRE_UPDATE, 0, nullptr}; if (VX_HEAD) wu[u++] = Rec{-1, M_UPDATE, 0, nullptr}; wu[u++] = Rec{0, M_UPDATE, 0, nullptr}; wu[u++] = Rec{0, M_POST_UPDATE, 0, nullptr}; if (VX_HEAD) wu[u++] = Rec{-1, M_POST_UPDATE, 0, nullptr};
			if (m.activeStateId() == 0) expect_trace("update after re-activation", 0, 0, wu, u, rp); }
		if (mode == 1 && m.activeStateId() != k) m.immediateChangeTo(static_cast<ffsm2::StateID>(k));
		if (mode == 2) m.changeTo(static_cast<ffsm2::StateID>(k));
		g_n = 0; m.exit();
		if (m.isActive()) violation("dispatch-activity", rp, "active after exit()");
	}
#endif
}

#if VX_SER
struct SBuf { uint8_t pre[8]; Inst::SerialBuffer buf; uint8_t post[8]; };
static void serial_sweep() {
	char rp[64]; snprintf(rp, sizeof rp, "serial:N=%d,head=%d,manual=%d", N, VX_HEAD, VX_MANUAL);
	const int NA = VX_MANUAL ? N + 1 : N;     // activity index N = inactive (manual only)
	static SBuf bufs[N + 1];
	static unsigned char snaps[N + 1][sizeof(Inst)];
	// savers: one machine per activity, driven through the API
	for (int s = 0; s < NA; ++s) {
		memset(g_store[0], 0x5E, sizeof g_store[0]); new (g_store[0]) Inst(); Inst& m = *inst(0);
#if VX_MANUAL
		if (s < N) { m.enter(); if (s) m.immediateChangeTo(static_cast<ffsm2::StateID>(s)); }
#else
		if (s) m.immediateChangeTo(static_cast<ffsm2::StateID>(s));
#endif
		memcpy(snaps[s], g_store[0], sizeof(Inst));
		memset(&bufs[s], 0xC3, sizeof(SBuf)); g_n = 0;
		m.save(bufs[s].buf); ++me().cases;
		if (memcmp(snaps[s], g_store[0], sizeof(Inst))) violation("save-modified-machine", rp, "N=%d: save() changed the machine in activity %d", N, s);
		if (g_n) violation("save-ran-callbacks", rp, "N=%d: save() delivered %d callbacks", N, g_n);
		for (int i = 0; i < 8; ++i) if (bufs[s].pre[i] != 0xC3 || bufs[s].post[i] != 0xC3) { violation("save-overran-buffer", rp, "N=%d: bytes outside the buffer written", N); break; }
		const unsigned bits = Inst::SerialBuffer::BIT_CAPACITY; const uint8_t* d = bufs[s].buf.data();
		for (unsigned b = bits; b < sizeof(Inst::SerialBuffer) * 8; ++b) if (d[b >> 3] & (1u << (b & 7))) { violation("save-beyond-bit-capacity", rp, "N=%d activity %d: bit %u set, BIT_CAPACITY is %u", N, s, b, bits); break; }
	}
	for (int a = 0; a < NA; ++a) for (int b = a + 1; b < NA; ++b) { ++me().cases; if (!memcmp(&bufs[a].buf, &bufs[b].buf, sizeof(Inst::SerialBuffer)) || bufs[a].buf == bufs[b].buf || !(bufs[a].buf != bufs[b].buf)) { violation("buffers-collide", rp, "N=%d: activities %d and %d serialize to equal buffers", N, a, b); } }
	for (int a = 0; a < NA; ++a) { // a second machine with the same activity but another history produces the same bytes
		memset(g_store[1], 0x11, sizeof g_store[1]); new (g_store[1]) Inst(); Inst& m2 = *inst(1);
#if VX_MANUAL
		if (a < N) { m2.enter(); m2.immediateChangeTo(static_cast<ffsm2::StateID>((a + 1) % N)); m2.immediateChangeTo(static_cast<ffsm2::StateID>(a)); } else { m2.enter(); m2.exit(); }
#else
		m2.immediateChangeTo(static_cast<ffsm2::StateID>((a + 1) % N)); m2.immediateChangeTo(static_cast<ffsm2::StateID>(a));
#endif
		SBuf b2; memset(&b2, 0xC3, sizeof b2); m2.save(b2.buf); ++me().cases;
		if (memcmp(&b2.buf, &bufs[a].buf, sizeof b2.buf) || !(b2.buf == bufs[a].buf)) violation("buffer-not-canonical", rp, "N=%d: two machines in activity %d serialize differently", N, a);
	}
	// a buffer that is an object of its own, with nothing of ours next to it (exact-size heap block: an access past its last byte is
	// an access outside any object, which the sanitizer builds report): save into it, load from it
	for (int s = 0; s < NA; ++s) {
		void* raw = malloc(sizeof(Inst::SerialBuffer)); if (!raw) break; memset(raw, 0xC3, sizeof(Inst::SerialBuffer));
		Inst::SerialBuffer* hb = new (raw) Inst::SerialBuffer;
		memcpy(g_store[0], snaps[s], sizeof(Inst)); inst(0)->save(*hb); ++me().cases;
		if (memcmp(hb, &bufs[s].buf, sizeof(Inst::SerialBuffer))) violation("buffer-not-canonical", rp, "N=%d: activity %d serializes differently into a stand-alone buffer", N, s);
		memcpy(g_store[1], snaps[(s + 1) % NA], sizeof(Inst)); g_n = 0; inst(1)->load(*hb); ++me().cases;
		const int got = inst(1)->activeStateId() == ffsm2::INVALID_STATE_ID ? N : inst(1)->activeStateId();
		if (got != s) violation("load-activity", rp, "N=%d: loading activity %d from a stand-alone buffer ends in %d", N, s, got);
		free(raw);
	}
	// loaders: every (saver activity, loader activity) pair
	for (int l = 0; l < NA; ++l) for (int s = 0; s < NA; ++s) {
		memcpy(g_store[0], snaps[l], sizeof(Inst)); Inst& m = *inst(0);
		g_n = 0; g_over = false; m.load(bufs[s].buf); ++me().cases;
		const int got = m.activeStateId() == ffsm2::INVALID_STATE_ID ? N : m.activeStateId();
		if (got != s) { violation("load-activity", rp, "N=%d: loader in %d loading activity %d ends in %d", N, l, s, got); continue; }
		Rec want[2]; int n = 0;
		if (l == N && s == N) {}
		else if (l == N) { if (VX_HEAD) want[n++] = Rec{-1, M_ENTER, 0, nullptr}; want[n++] = Rec{static_cast<int16_t>(s), M_ENTER, 0, nullptr}; }
		else if (s == N) { want[n++] = Rec{static_cast<int16_t>(l), M_EXIT, 0, nullptr}; if (VX_HEAD) want[n++] = Rec{-1, M_EXIT, 0, nullptr}; }
		else if (l == s) want[n++] = Rec{static_cast<int16_t>(s), M_REENTER, 0, nullptr};
		else { want[n++] = Rec{static_cast<int16_t>(l), M_EXIT, 0, nullptr}; want[n++] = Rec{static_cast<int16_t>(s), M_ENTER, 0, nullptr}; }
		bool ok = g_n == n; for (int i = 0; ok && i < n; ++i) ok = g_tr[i].sid == want[i].sid && g_tr[i].meth == want[i].meth;
		if (!ok) { bool guard = false; for (int i = 0; i < g_n; ++i) guard |= g_tr[i].meth == M_EG || g_tr[i].meth == M_XG; violation(guard ? "load-consulted-guards" : "load-lifecycle", rp, "N=%d: loader in %d loading activity %d delivered %d callbacks (first %s on %d), expected %d", N, l, s, g_n, g_n ? MN[g_tr[0].meth] : "-", g_n ? g_tr[0].sid : 0, n); }
	}
	me().states += NA;
}
#endif

#if VX_PLANS && !VX_MANUAL
// plans on a machine of this size: a chain 0>1>...>last walked by success reports, then planSucceeded once; a failure from outside
static void plan_sweep() {
	char rp[64]; snprintf(rp, sizeof rp, "plans:N=%d,head=%d", N, VX_HEAD);
	activate(0); Inst& m = *inst(0); g_plan_ok = g_plan_fail = 0;
	// reports on a machine without a plan are not an outcome
	m.succeed(static_cast<ffsm2::StateID>(N - 1)); m.fail(static_cast<ffsm2::StateID>(N > 1 ? N - 2 : 0)); m.update(); ++me().cases;
	if (g_plan_ok || g_plan_fail) violation("outcome-without-any-task", rp, "N=%d: planSucceeded x%d / planFailed x%d on a machine to which no task was added", N, g_plan_ok, g_plan_fail);
	check_marks(m, rp, "after succeed/fail without a plan");
	// fresh machine: chain of N-1 tasks (capacity defaults to the state count)
	m.~Inst(); activate(0); Inst& q = *inst(0); g_plan_ok = g_plan_fail = 0;
	const int CH = (N - 1 < TASKCAP ? N - 1 : TASKCAP) + 1;   // the chain visits states 0..CH-1 (as many tasks as the capacity admits); the next append must be refused
	{ auto p = q.plan(); for (int i = 0; i + 1 < CH; ++i) if (!p.change(static_cast<ffsm2::StateID>(i), static_cast<ffsm2::StateID>(i + 1))) { violation("plan-append", rp, "N=%d capacity %d: task %d of %d refused", N, TASKCAP, i, CH - 1); return; }
		if (CH - 1 == TASKCAP && N > 1) { if (p.change(0, static_cast<ffsm2::StateID>(N - 1))) { violation("plan-append", rp, "N=%d: task %d accepted by a plan of capacity %d", N, TASKCAP + 1, TASKCAP); return; } } }
	g_succeed_in_update = true;
	for (int i = 0; i + 1 < CH; ++i) { q.update(); ++me().cases;
		if (q.activeStateId() != i + 1) { violation("plan-walk", rp, "N=%d: after %d successful cycles state %d is active, the plan leads to %d", N, i + 1, q.activeStateId(), i + 1); g_succeed_in_update = false; return; }
		if (g_plan_ok || g_plan_fail) { violation("plan-outcome-early", rp, "N=%d: outcome callback after %d of %d tasks", N, i + 1, CH - 1); g_succeed_in_update = false; return; } }
	if (N > 1) { q.update(); ++me().cases; if (VX_HEAD && (g_plan_ok != 1 || g_plan_fail)) violation("plan-outcome", rp, "N=%d: planSucceeded x%d planFailed x%d after the last task, expected exactly one planSucceeded", N, g_plan_ok, g_plan_fail); }
	g_succeed_in_update = false;
	check_marks(q, rp, "after walking a plan through every state");
	// failure from outside with a plan present: planFailed once, plan cleared, nobody moves
	if (N > 1) { g_plan_ok = g_plan_fail = 0; const int a = q.activeStateId(); { auto p = q.plan(); p.change(static_cast<ffsm2::StateID>(a), 0); } q.fail(static_cast<ffsm2::StateID>(a)); q.update(); ++me().cases;
		if (VX_HEAD && (g_plan_fail != 1 || g_plan_ok)) violation("plan-outcome", rp, "N=%d: planFailed x%d planSucceeded x%d after fail(%d) with a plan", N, g_plan_fail, g_plan_ok, a);
		if (q.activeStateId() != a) violation("plan-walk", rp, "N=%d: a failed plan moved the machine", N);
		{ auto p = q.plan(); if (p) violation("plan-outcome", rp, "N=%d: plan not empty after planFailed", N); } }
	check_marks(q, rp, "after a failed plan");
	q.~Inst();
	// success reports are kept per state, whatever the state's id: for states at both ends and around the multiples of eight
	if (N >= 3) { const int cand[] = {0, 1, 6, 7, 8, 9, 15, 16, 17, 63, 64, 65, N - 2, N - 1}; int done[16]; int nd = 0;
		for (int ci = 0; ci < 14; ++ci) { const int s = cand[ci]; if (s < 0 || s >= N) continue; bool dup = false; for (int k = 0; k < nd; ++k) dup |= done[k] == s; if (dup) continue; done[nd++] = s;
			const ffsm2::StateID S = static_cast<ffsm2::StateID>(s), X = static_cast<ffsm2::StateID>((s + 1) % N), T = static_cast<ffsm2::StateID>((s + 2) % N);
			{ // (a) a report outstanding for the active state survives the cycles in which the task at the head of the plan belongs to another state
				activate(0); Inst& a = *inst(0); if (s) a.immediateChangeTo(S); g_plan_ok = g_plan_fail = 0;
				{ auto p = a.plan(); p.change(X, T); p.change(S, T); }
				a.succeed(S); g_n = 0; a.update(); g_n = 0; a.update(); ++me().cases;
				if (a.activeStateId() != s || g_plan_ok || g_plan_fail) violation("plan-walk", rp, "N=%d: state %d succeeded while the first task belongs to state %d: active %d, planSucceeded x%d planFailed x%d", N, s, (s + 1) % N, a.activeStateId(), g_plan_ok, g_plan_fail);
				else { { auto p = a.plan(); auto it = p.begin(); if (it) it.remove(); } g_n = 0; a.update(); ++me().cases;
					if (a.activeStateId() != T) violation("plan-report-lost", rp, "N=%d: success of state %d was reported and never consumed, its task %d>%d is first in the plan now and did not fire (active %d)", N, s, s, (s + 2) % N, a.activeStateId()); }
				a.~Inst(); }
			{ // (b) a report is consumed by the task it fires, also when the transition that task requests is vetoed
				activate(0); Inst& b = *inst(0); if (s) b.immediateChangeTo(S); g_plan_ok = g_plan_fail = 0;
				{ auto p = b.plan(); p.change(S, T); }
				b.succeed(S); g_veto_entry = true; g_n = 0; b.update(); g_veto_entry = false; ++me().cases;
				if (b.activeStateId() != s) violation("plan-walk", rp, "N=%d: vetoed task transition %d>%d was applied", N, s, (s + 2) % N);
				else { { auto p = b.plan(); p.change(S, T); } g_n = 0; b.update(); ++me().cases;
					if (b.activeStateId() != s || g_plan_ok || g_plan_fail) violation("plan-report-stale", rp, "N=%d: the success of state %d was consumed by the task it fired (whose transition was vetoed); a new task %d>%d fired / an outcome was delivered without a new report (active %d, planSucceeded x%d, planFailed x%d)", N, s, s, (s + 2) % N, b.activeStateId(), g_plan_ok, g_plan_fail); }
				b.~Inst(); } } }
}
#endif
#if VX_HIST && !VX_MANUAL
// replayTransition(k) from every j reaches k with exit(j) enter(k) and no guards; replaying k again re-enters k
static void replay_sweep() {
	char rp[64]; snprintf(rp, sizeof rp, "replay:N=%d,head=%d", N, VX_HEAD);
	activate(0); Inst& m = *inst(0); FillObj<N - 1>::run(m);
#if VX_HEAD
	g_obj[N] = &m.access<Rt>();
#endif
	const int step = N > 40 ? 7 : 1;
	for (int j = 0; j < N; j += step) for (int k = 0; k < N; k += (N > 40 ? 5 : 1)) {
		if (m.activeStateId() != j) { m.immediateChangeTo(static_cast<ffsm2::StateID>(j)); }
		g_n = 0; g_over = false; const bool ok = m.replayTransition(static_cast<ffsm2::StateID>(k)); ++me().cases;
		Rec want[2]; int n = 0; if (j == k) want[n++] = Rec{static_cast<int16_t>(k), M_REENTER, 0, nullptr}; else { want[n++] = Rec{static_cast<int16_t>(j), M_EXIT, 0, nullptr}; want[n++] = Rec{static_cast<int16_t>(k), M_ENTER, 0, nullptr}; }
		if (!ok) violation("dispatch", rp, "N=%d: replayTransition(%d) from %d refused", N, k, j);
		if (!expect_trace("replayTransition", j, k, want, n, rp)) continue;
		if (m.activeStateId() != k) { violation("dispatch-activity", rp, "N=%d: replayTransition(%d) from %d leaves %d active", N, k, j, m.activeStateId()); continue; }
		// the same destination once more: a re-entry of k, nothing else
		g_n = 0; m.replayTransition(static_cast<ffsm2::StateID>(k)); ++me().cases;
		Rec again[1] = {Rec{static_cast<int16_t>(k), M_REENTER, 0, nullptr}};
		expect_trace("replayTransition (same destination again)", k, k, again, 1, rp);
		if (m.activeStateId() != k) violation("dispatch-activity", rp, "N=%d: replaying %d twice leaves %d active", N, k, m.activeStateId());
		g_n = 0; m.update(); ++me().cases;
		{ Rec wu[6]; int u = 0; if (VX_HEAD) wu[u++] = Rec{-1, M_PRE_UPDATE, 0, nullptr}; wu[u++] = Rec{static_cast<int16_t>(k), M_PRE_UPDATE, 0, nullptr}; if (VX_HEAD) wu[u++] = Rec{-1, M_UPDATE, 0, nullptr}; wu[u++] = Rec{static_cast<int16_t>(k), M_UPDATE, 0, nullptr}; wu[u++] = Rec{static_cast<int16_t>(k), M_POST_UPDATE, 0, nullptr}; if (VX_HEAD) wu[u++] = Rec{-1, M_POST_UPDATE, 0, nullptr};
			if (m.activeStateId() == k) expect_trace("update after replay", k, k, wu, u, rp); }
	}
	check_marks(m, rp, "after the replay sweep");
	m.~Inst();
}
#endif

int main(int argc, char** argv) {
	Args a = parse_args(argc, argv);
	init(1);
	dispatch_sweep();
#if VX_PLANS && !VX_MANUAL
	plan_sweep();
	sample("N=%d: plan 0>1>...>%d walked by success reports, exactly one planSucceeded at the end; fail() with a plan: exactly one planFailed; user data in all %d state objects intact", N, N - 1, N);
#endif
#if VX_HIST && !VX_MANUAL
	replay_sweep();
#endif
	sample("N=%d %s: every ordered pair (j,k): immediateChangeTo(k) from j => exitGuard(j) entryGuard(k) exit(j) enter(k) on access<St<j>>()/access<St<k>>(); update/react/query reach k only", N, VX_HEAD ? "Root" : "PeerRoot");
#if VX_SER
	serial_sweep();
	sample("N=%d: all (saver, loader) activity pairs%s: save() pure and within BIT_CAPACITY=%d bits, buffers equal iff activities equal, load() = minimal lifecycle, no guards", N, VX_MANUAL ? " incl. inactive" : "", static_cast<int>(Inst::SerialBuffer::BIT_CAPACITY));
#endif
	char extra[160]; snprintf(extra, sizeof extra, ",\"n\":%d,\"head\":%d,\"manual\":%d,\"ser\":%d,\"sizeof_instance\":%zu", N, VX_HEAD, VX_MANUAL, VX_SER, sizeof(Inst));
	write_result(a.out, "sweepx_n", extra);
	if (a.replay) { for (int i = 0; i < me().nfirst; ++i) printf("  FLAG %s\n", me().first[i]); printf("replay: %lu violation(s)\n", totals().bad); }
	return totals().bad ? 1 : 0;
}
