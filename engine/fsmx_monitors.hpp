// fsmx_monitors.hpp -- per-property trace monitors. Each monitor is a deterministic automaton over ONE executed edge:
// the pre-state abstraction, the API call, the implementation's own trace (callback deliveries with what the control and
// the machine reported at that instant, the actions the scripted callbacks took, logger records) and the post-state.
// A monitor reports only under its own property id; monitors do not depend on each other's verdicts.
#pragma once
#include "fsmx_ops.hpp"

namespace vx {

enum Prop { C01 = 1, C02, C03, C04, C05, C06, C07, C08, C09, C10, C11, C12, C13, C14, C15, C16, C17, C18, C19, C20, PROP_MAX };

// supplied by the explorer
void flag(int prop, const char* pred, const Edge& e, const char* fmt, ...);

static constexpr int L = VX_L;
static constexpr int MAXR = 260;

struct Round {
	int reg_ev = -1, xg_ev = -1, eg_ev = -1;   // root entry guard (activation), exit guard, entry guard: event index of the own callback
	TxS subj;                                  // pendingTransition() the first guard of the round saw
	bool cancelled = false;
	bool reg_cancel = false, xg_cancel = false, eg_cancel = false;
	bool hasReq = false; TxS lastReq;          // last request made by a guard during this round
	bool reqTagKnown = true;
	unsigned parts[4] = {0, 0, 0, 0};          // members consulted per guard group (index: 1 root entry guard, 2 exit guard, 3 entry guard; bit 0 the state, bit j injection j)
};

struct Parsed {
	int nphase = 0, phase_ev[24];
	int nlife = 0, life_ev[24];
	int nout = 0, out_ev[4];
	int nquery = 0, query_ev[8];
	int nfired = 0; TxS fired[MAXPLAN + 2]; int fired_ev[MAXPLAN + 2];
	TxS reqBefore; bool reqBeforeTagKnown = true;   // request outstanding when guard processing starts
	bool reqBeforeKnown = true;                     // false when a plan may have issued a request that the trace cannot show (plans without an attached logger)
	int nr = 0; Round r[MAXR];
	int firstGuard = -1, lastGuard = -1;
	int structErr = 0, structEv = -1;     // guard structure that cannot be segmented into rounds
	bool activation = false, processing = false;
	int ncb = 0;
};

inline bool is_phase(uint8_t m) { return m == M_PRE_UPDATE || m == M_UPDATE || m == M_POST_UPDATE || m == M_PRE_REACT || m == M_REACT || m == M_POST_REACT; }
inline bool is_life(uint8_t m) { return m == M_ENTER || m == M_REENTER || m == M_EXIT; }
inline bool is_guard(uint8_t m) { return m == M_EG || m == M_XG; }
inline TxS mkreq(uint8_t o, uint8_t d, uint8_t tag) { return TxS{o, d, static_cast<uint8_t>(tag ? 1 : 0), tag}; }
inline bool same_od(const TxS& a, const TxS& b) { return a.o == b.o && a.d == b.d; }
inline bool same_req(const TxS& a, const TxS& b, bool tagKnown) { return tagKnown ? (a.o == b.o && a.d == b.d && (a.set != 0) == (b.set != 0) && a.tag == b.tag) : same_od(a, b); }

// Segments the trace. Only own callbacks (inj == 0) delimit groups; injection callbacks are attributed to the group of the state they wrap.
inline void parse(const Edge& e, Parsed& P) {
	P.activation = op_activates(e.op);
	P.processing = op_processes(e.op.k);
	TxS req = e.initial ? TX_NONE : e.pre.req;
	if (e.op.k == OP_IMM || e.op.k == OP_CHANGE) req = mkreq(NONE8, e.op.a, 0);
	if (e.op.k == OP_IMMW || e.op.k == OP_CHANGEW) req = mkreq(NONE8, e.op.a, e.op.b);
	bool reqTagKnown = true;
	const bool loggerOn = e.initial ? (VX_LOG && e.op.a != 0) : e.logger_on;
	P.reqBeforeKnown = !(VX_PLANS && (e.op.k == OP_UPDATE || e.op.k == OP_REACT) && !loggerOn);
	Round* cur = nullptr; int curGuardEv = -1; int curGuardKind = 0;   // 1 root eg, 2 xg, 3 eg
	bool inRounds = false;
	bool groupOpen = false; uint8_t groupSid = 0, groupMeth = 0;
	for (int i = 0; i < e.nev; ++i) {
		const Ev& v = e.tr[i];
		if (v.kind == EV_MARK) break;   // companion sections are handled by their own monitors
		if (v.kind == EV_CB) {
			++P.ncb;
			if (is_guard(v.meth)) {
				// a delivery group = the injections' guards and the state's own guard of one (state, method); it ends with the own callback
				if (P.firstGuard < 0) P.firstGuard = i;
				P.lastGuard = i;
				if (!inRounds) { inRounds = true; P.reqBefore = req; P.reqBeforeTagKnown = reqTagKnown; }
				const bool sameGroup = groupOpen && v.sid == groupSid && v.meth == groupMeth;
				if (sameGroup) { if (!v.inj) groupOpen = false; curGuardEv = i; if (cur && v.inj < 8) cur->parts[curGuardKind & 3] |= 1u << v.inj; continue; }
				groupOpen = v.inj != 0; groupSid = v.sid; groupMeth = v.meth;
				bool startsRound;
				if (P.activation) startsRound = VX_HEAD ? (v.sid == ROOT && v.meth == M_EG) : (v.meth == M_EG);
				else startsRound = (v.meth == M_XG);
				if (startsRound) {
					if (P.nr >= MAXR) { if (!P.structErr) { P.structErr = 1; P.structEv = i; } cur = nullptr; continue; }
					cur = &P.r[P.nr++]; *cur = Round(); cur->subj = v.pend;
					if (v.sid == ROOT) { cur->reg_ev = i; curGuardKind = 1; } else if (v.meth == M_XG) { cur->xg_ev = i; curGuardKind = 2; } else { cur->eg_ev = i; curGuardKind = 3; }
				} else {
					if (!cur || cur->eg_ev >= 0 || v.meth != M_EG || v.sid == ROOT) { if (!P.structErr) { P.structErr = 2; P.structEv = i; } curGuardEv = -1; continue; }
					cur->eg_ev = i; curGuardKind = 3;
				}
				curGuardEv = i;
				if (cur && v.inj < 8) cur->parts[curGuardKind & 3] |= 1u << v.inj;
				continue;
			}
			if (v.inj) continue;
			if (is_phase(v.meth)) { if (P.nphase < 24) P.phase_ev[P.nphase++] = i; curGuardEv = -1; continue; }
			if (v.meth == M_QUERY) { if (P.nquery < 8) P.query_ev[P.nquery++] = i; continue; }
			if (v.meth == M_PLAN_OK || v.meth == M_PLAN_FAIL) { if (P.nout < 4) P.out_ev[P.nout++] = i; curGuardEv = -1; continue; }
			if (is_life(v.meth)) { if (P.nlife < 24) P.life_ev[P.nlife++] = i; curGuardEv = -1; continue; }
			continue;
		}
		// actions
		if (v.kind == EV_CHANGE) {
			TxS rq = mkreq(v.sid, v.a, v.b);
			if (curGuardEv >= 0 && cur && is_guard(v.meth)) { cur->hasReq = true; cur->lastReq = rq; cur->reqTagKnown = true; }
			else { req = rq; reqTagKnown = true; }
			continue;
		}
		if (v.kind == EV_CANCEL) {
			if (curGuardEv >= 0 && cur) { cur->cancelled = true; if (curGuardKind == 1) cur->reg_cancel = true; else if (curGuardKind == 2) cur->xg_cancel = true; else cur->eg_cancel = true; }
			continue;
		}
		if (v.kind == EV_LOG_TRANS) {
			// a transition record that is not the echo of a scripted action (those are followed by their EV_CHANGE) nor of the external call
			const bool echo = (i + 1 < e.nev && e.tr[i + 1].kind == EV_CHANGE && e.tr[i + 1].a == v.a);
			const bool external = (i == 0 && (e.op.k == OP_CHANGE || e.op.k == OP_IMM || e.op.k == OP_CHANGEW || e.op.k == OP_IMMW));
			if (!echo && !external) {
				if (P.nfired < MAXPLAN + 2) { P.fired[P.nfired] = mkreq(v.sid, v.a, 0); P.fired_ev[P.nfired] = i; ++P.nfired; }
				if (!inRounds) { req = mkreq(v.sid, v.a, 0); reqTagKnown = false; }
			}
			continue;
		}
	}
	if (!inRounds) { P.reqBefore = req; P.reqBeforeTagKnown = reqTagKnown; }
}

inline int popcount8(uint8_t v) { int c = 0; while (v) { c += v & 1; v >>= 1; } return c; }

// index of the first round that evaluates a request (activation: round 0 is the evaluation of the initial entry with an empty pending transition)
inline int first_req_round(const Parsed& P) { return P.activation ? 1 : 0; }

// the winner: subject of the last round that evaluated a request and was not cancelled
inline bool winner(const Parsed& P, TxS& W) {
	bool has = false;
	for (int i = first_req_round(P); i < P.nr; ++i) if (!P.r[i].cancelled) { W = P.r[i].subj; has = true; }
	return has;
}

// accepted transition as seen by the guards of round i (subject of the last earlier non-cancelled request round)
inline TxS accepted_before(const Parsed& P, int i) {
	TxS a = TX_NONE;
	for (int j = first_req_round(P); j < i && j < P.nr; ++j) if (!P.r[j].cancelled) a = P.r[j].subj;
	return a;
}

// The one library rule the property texts do not spell out: a request that is field-for-field the transition already
// accepted in this processing step without origin or payload (same destination) is dropped instead of being re-evaluated.
inline bool is_dropped_duplicate(const TxS& accepted, const TxS& request) {
	return !tx_empty(accepted) && accepted.o == NONE8 && accepted.set == 0 && accepted.d == request.d;
}

// =========================================================================== C01
inline void m01(const Edge& e, const Parsed&) {
	bool rootIn = !e.initial && e.pre.active != NONE8;
	int cur = (!e.initial && e.pre.active != NONE8) ? e.pre.active : -1;
	bool companion = false;   // after a mark the events belong to a copy that inherited (rootIn, cur)
	unsigned injIn[9] = {0}; bool injInit[9] = {false};
	for (int i = 0; i < e.nev; ++i) {
		const Ev& v = e.tr[i];
		if (v.kind == EV_MARK) { if (v.a == 2 && e.res.ret) companion = true; continue; }
		if (v.kind == EV_CB && v.inj && !companion && (v.meth == M_ENTER || v.meth == M_EXIT)) {   // injected mix-ins are entered and exited in pairs like the state they belong to
			const int slot = v.sid == ROOT ? N : v.sid; if (slot <= N && v.inj < 8) { const unsigned bit = 1u << v.inj;
				if (!injInit[slot]) { injInit[slot] = true; injIn[slot] = (v.sid == ROOT ? (!e.initial && e.pre.active != NONE8) : (!e.initial && e.pre.active == v.sid)) ? 0xFFu : 0u; }
				if (v.meth == M_ENTER) { if (injIn[slot] & bit) flag(C01, "injection-enter-unpaired", e, "ev %d: enter of injection %d of %s%d although it was entered and not exited", i, v.inj, v.sid == ROOT ? "R" : "S", v.sid == ROOT ? 0 : v.sid); injIn[slot] |= bit; }
				else { if (!(injIn[slot] & bit)) flag(C01, "injection-exit-unpaired", e, "ev %d: exit of injection %d of %s%d although it was not entered", i, v.inj, v.sid == ROOT ? "R" : "S", v.sid == ROOT ? 0 : v.sid); injIn[slot] &= ~bit; } }
		}
		if (v.kind != EV_CB || v.inj) continue;
		const bool rootCb = v.sid == ROOT;
		if (v.meth == M_ENTER) {
			if (rootCb) { if (rootIn || cur >= 0) flag(C01, "root-enter-while-active", e, "ev %d", i); rootIn = true;
				if (popcount8(v.m_mask) != 1 || v.m_active >= N) flag(C01, "root-enter-activity", e, "ev %d: machine reports mask %x", i, v.m_mask);
				continue; }
			if ((VX_HEAD && !rootIn) || cur >= 0) flag(C01, "enter-unpaired", e, "ev %d: enter(S%d) while cur=%d rootIn=%d", i, v.sid, cur, rootIn);
			cur = v.sid; rootIn = true;
		} else if (v.meth == M_EXIT) {
			if (rootCb) { if (!rootIn || cur >= 0) flag(C01, "root-exit-order", e, "ev %d", i); rootIn = false;
				if (popcount8(v.m_mask) != 1) flag(C01, "root-exit-activity", e, "ev %d: machine reports mask %x", i, v.m_mask);
				continue; }
			if (cur != v.sid) flag(C01, "exit-unpaired", e, "ev %d: exit(S%d) while cur=%d", i, v.sid, cur);
			if (v.m_active != v.sid || v.m_mask != (1u << v.sid)) flag(C01, "exit-activity", e, "ev %d: machine reports %d/%x inside exit(S%d)", i, v.m_active, v.m_mask, v.sid);
			cur = -1;
			continue;
		} else if (v.meth == M_REENTER) {
			if (cur != v.sid) flag(C01, "reenter-inactive", e, "ev %d: reenter(S%d) while cur=%d", i, v.sid, cur);
		}
		// what the machine reports inside any callback other than the root's enter/exit
		if (cur >= 0) { if (v.m_active != cur || v.m_mask != (1u << cur)) flag(C01, "observed-activity", e, "ev %d: machine reports act=%d mask=%x, expected S%d", i, v.m_active, v.m_mask, cur); }
		else { if (v.m_active != NONE8 || v.m_mask) flag(C01, "observed-activity-inactive", e, "ev %d: machine reports act=%d mask=%x while no state is entered", i, v.m_active, v.m_mask); }
	}
	if (companion || e.terminal) {
		if (rootIn && VX_HEAD) flag(C01, "final-exit-root-missing", e, "root left entered");
		if (cur >= 0) flag(C01, "final-exit-state-missing", e, "S%d left entered", cur);
		if (e.terminal) return;
		// the original is untouched by the copy's destruction
		rootIn = e.pre.active != NONE8; cur = rootIn ? e.pre.active : -1;
	}
	if (e.post.active != NONE8) {
		if (cur != e.post.active) flag(C01, "post-activity", e, "activeStateId()=%d but last entered state is %d", e.post.active, cur);
		if (e.post.mask != (1u << e.post.active)) flag(C01, "post-isActive", e, "isActive mask %x for active %d", e.post.mask, e.post.active);
		if (!e.post.manualActive) flag(C01, "post-manual-isActive", e, "isActive() false on an active machine");
		if (e.post.active >= N) flag(C01, "post-range", e, "active id %d out of range", e.post.active);
	} else {
		if (cur >= 0 || (VX_HEAD && rootIn)) flag(C01, "post-inactive-unpaired", e, "machine inactive but cur=%d rootIn=%d", cur, rootIn);
		if (e.post.mask || e.post.manualActive) flag(C01, "post-inactive-isActive", e, "inactive machine reports mask %x", e.post.mask);
		if (!VX_MANUAL) flag(C01, "automatic-inactive", e, "automatic machine inactive between calls");
	}
}

// =========================================================================== C02
inline void check_lifecycle_shape(int prop, const Edge& e, const Parsed& P, bool hasW, const TxS& W) {
	const uint8_t A = e.initial ? NONE8 : e.pre.active;
	if (P.activation) {
		const uint8_t target = hasW ? W.d : 0;
		const int want = VX_HEAD ? 2 : 1;
		bool ok = P.nlife == want;
		if (ok && VX_HEAD) ok = e.tr[P.life_ev[0]].sid == ROOT && e.tr[P.life_ev[0]].meth == M_ENTER;
		if (ok) { const Ev& v = e.tr[P.life_ev[want - 1]]; ok = v.sid == target && v.meth == M_ENTER; }
		if (!ok) flag(prop, "activation-lifecycle", e, "expected enter of S%d", target);
		if (e.post.active != target) flag(prop, "activation-result", e, "active=%d expected %d", e.post.active, target);
		return;
	}
	if (!hasW) {
		if (P.nlife) flag(prop, "lifecycle-without-survivor", e, "%d lifecycle callbacks although no request survived", P.nlife);
		if (e.post.active != A) flag(prop, "activity-changed-without-survivor", e, "active %d -> %d", A, e.post.active);
		return;
	}
	if (e.post.active != W.d) flag(prop, "winner-not-active", e, "surviving request targets %d, active is %d", W.d, e.post.active);
	bool ok;
	if (W.d == A) ok = P.nlife == 1 && e.tr[P.life_ev[0]].meth == M_REENTER && e.tr[P.life_ev[0]].sid == A;
	else ok = P.nlife == 2 && e.tr[P.life_ev[0]].meth == M_EXIT && e.tr[P.life_ev[0]].sid == A && e.tr[P.life_ev[1]].meth == M_ENTER && e.tr[P.life_ev[1]].sid == W.d;
	if (!ok) flag(prop, "lifecycle-shape", e, "expected %s for %d->%d", W.d == A ? "reenter" : "exit,enter", A, W.d);
}

inline void check_subject_chain(int prop, const Edge& e, const Parsed& P, bool onlyGuardMade) {
	if (P.structErr) return;
	const int f = first_req_round(P);
	// first request round
	if (!onlyGuardMade && !P.activation && P.reqBeforeKnown) {
		if (tx_empty(P.reqBefore)) { if (P.nr > f) flag(prop, "round-without-request", e, "guards ran although no request was outstanding"); }
		else if (P.nr <= f) { flag(prop, "request-not-processed", e, "outstanding request was not evaluated"); }
		else if (!same_req(P.r[f].subj, P.reqBefore, P.reqBeforeTagKnown)) flag(prop, "first-subject", e, "round 1 evaluates %d>%d, last request was %d>%d", P.r[f].subj.o, P.r[f].subj.d, P.reqBefore.o, P.reqBefore.d);
	}
	for (int i = P.activation ? 0 : f; i < P.nr; ++i) {
		const Round& r = P.r[i];
		const bool last = i + 1 == P.nr;
		if (!r.hasReq) { if (!last) flag(prop, "round-without-request", e, "round %d follows a round in which no request was made", i + 2); continue; }
		if (!last) { if (!same_req(P.r[i + 1].subj, r.lastReq, true)) flag(prop, "subject-chain", e, "round %d evaluates %d>%d, last request of round %d was %d>%d", i + 2, P.r[i + 1].subj.o, P.r[i + 1].subj.d, i + 1, r.lastReq.o, r.lastReq.d); continue; }
		// a request made in the last round: either the limit is exhausted (left over) or it is the dropped duplicate
		const int used = P.nr - f;
		if (used >= L) continue;
		TxS acc = accepted_before(P, P.nr);
		if (!is_dropped_duplicate(acc, r.lastReq)) flag(prop, "guard-request-not-evaluated", e, "request %d>%d made in round %d was neither evaluated nor left over (limit %d)", r.lastReq.o, r.lastReq.d, i + 1, L);
	}
}

inline void m02(const Edge& e, const Parsed& P) {
	// deactivation discards what was waiting: a request must not survive into the next activation
	if (!e.terminal && (e.op.k == OP_EXIT || (e.op.k == OP_LOAD && e.op.a == N)) && !tx_empty(e.post.req)) flag(C02, "request-survives-deactivation", e, "request %d>%d is still outstanding on the deactivated machine", e.post.req.o == NONE8 ? -1 : e.post.req.o, e.post.req.d);
	// (a) a request never changes activity at the moment it is made
	for (int i = 0; i < e.nev; ++i) { const Ev& v = e.tr[i]; if (v.kind == EV_MARK) break; if (v.kind == EV_CHANGE && !v.r) flag(C02, "request-changed-activity", e, "ev %d", i); }
	if (e.op.k == OP_CHANGE || e.op.k == OP_CHANGEW) {
		if (e.post.active != e.pre.active || P.ncb) flag(C02, "external-request-applied-immediately", e, "active %d -> %d, %d callbacks", e.pre.active, e.post.active, P.ncb);
		if (!same_req(e.post.req, mkreq(NONE8, e.op.a, e.op.k == OP_CHANGEW ? e.op.b : 0), true)) flag(C02, "external-request-not-recorded", e, "outstanding request %d>%d", e.post.req.o, e.post.req.d);
		return;
	}
	if (!P.processing && !P.activation) return;
	// (b) lifecycle callbacks only after the phase / plan-outcome callbacks of the same call
	if (P.nlife) { int last = -1; if (P.nphase) last = P.phase_ev[P.nphase - 1]; if (P.nout && P.out_ev[P.nout - 1] > last) last = P.out_ev[P.nout - 1]; if (P.life_ev[0] < last) flag(C02, "lifecycle-before-phases-end", e, "lifecycle ev %d precedes phase ev %d", P.life_ev[0], last); }
	if (P.structErr) { flag(C02, "guard-structure", e, "cannot segment guard deliveries into rounds at ev %d", P.structEv); return; }
	// (c) replacement: what is evaluated is the last request made
	check_subject_chain(C02, e, P, false);
	{ // a processing step consumes the request it was given: nothing stays outstanding unless the substitution limit was exhausted,
	  // and it never evaluates more requests than the limit allows (the rest is left for the next step)
		const int used = P.nr - first_req_round(P);
		if (used > L) flag(C02, "processing-beyond-limit", e, "%d requests evaluated in one processing step, the substitution limit is %d", used, L);
		if (!e.terminal && used < L && !tx_empty(e.post.req)) flag(C02, "request-outlives-processing", e, "request %d>%d is still outstanding after a processing step that used %d of %d rounds: it would be applied later although nobody asks again", e.post.req.o, e.post.req.d, used, L);
	}
	// (d) outcome
	TxS W = TX_NONE; bool hasW = winner(P, W);
	check_lifecycle_shape(C02, e, P, hasW, W);
}

// =========================================================================== C03
inline void m03(const Edge& e, const Parsed& P) {
	if (e.op.k == OP_REPLAY_T || e.op.k == OP_REPLAY_E || e.op.k == OP_LOAD || e.op.k == OP_REPLAY_T_INV) {
		if (P.firstGuard >= 0 || e.guard_cbs) flag(C03, "guards-consulted-by-replay-or-load", e, "%lu guard callbacks", e.guard_cbs);
		return;
	}
	if (!P.processing && !P.activation) { if (P.firstGuard >= 0) flag(C03, "guards-outside-processing", e, "guard at ev %d", P.firstGuard); return; }
	if (P.structErr) { flag(C03, "guard-structure", e, "guard delivery at ev %d does not fit exit-guard-then-entry-guard rounds", P.structEv); return; }
	const uint8_t A = e.initial ? NONE8 : e.pre.active;
	for (int i = 0; i < P.nr; ++i) {
		const Round& r = P.r[i];
		const TxS acc = accepted_before(P, i);
		if (P.activation) {
			const uint8_t dest = (i == 0) ? 0 : r.subj.d;
			if (i == 0 && !tx_empty(r.subj)) flag(C03, "initial-entry-pending", e, "initial entry guards see a pending transition");
			if (VX_HEAD) {
				if (r.reg_ev < 0) flag(C03, "root-entry-guard-missing", e, "round %d", i + 1);
				if (r.reg_cancel && r.eg_ev >= 0) flag(C03, "entry-guard-after-cancel", e, "round %d: root cancelled, S%d entry guard still consulted", i + 1, dest);
				if (!r.reg_cancel && r.eg_ev < 0) flag(C03, "entry-guard-missing", e, "round %d", i + 1);
				if (r.reg_ev >= 0 && r.eg_ev >= 0 && r.eg_ev < r.reg_ev) flag(C03, "guard-order", e, "round %d", i + 1);
			} else if (r.eg_ev < 0) flag(C03, "entry-guard-missing", e, "round %d", i + 1);
			if (r.eg_ev >= 0) {
				const Ev& g = e.tr[r.eg_ev];
				if (g.sid != dest) flag(C03, "entry-guard-of-wrong-state", e, "round %d: S%d consulted for destination %d", i + 1, g.sid, dest);
				if (g.pend != r.subj) flag(C03, "pending-differs-within-round", e, "round %d", i + 1);
				if (g.cur != acc) flag(C03, "current-transition-in-guard", e, "round %d: entry guard sees current %d>%d, accepted so far %d>%d", i + 1, g.cur.o, g.cur.d, acc.o, acc.d);
			}
			if (r.reg_ev >= 0 && e.tr[r.reg_ev].cur != acc) flag(C03, "current-transition-in-guard", e, "round %d (root)", i + 1);
			continue;
		}
		if (r.xg_ev < 0) { flag(C03, "exit-guard-missing", e, "round %d", i + 1); continue; }
		const Ev& x = e.tr[r.xg_ev];
		if (x.sid != A) flag(C03, "exit-guard-of-wrong-state", e, "round %d: S%d consulted, active is %d", i + 1, x.sid, A);
		if (tx_empty(r.subj)) flag(C03, "guards-without-pending", e, "round %d: exit guard sees no pending transition", i + 1);
		if (x.cur != acc) flag(C03, "current-transition-in-guard", e, "round %d: exit guard sees current %d>%d, accepted so far %d>%d", i + 1, x.cur.o, x.cur.d, acc.o, acc.d);
		if (r.xg_cancel && r.eg_ev >= 0) flag(C03, "entry-guard-after-cancel", e, "round %d: exit guard cancelled, entry guard of S%d still consulted", i + 1, e.tr[r.eg_ev].sid);
		if (!r.xg_cancel && r.eg_ev < 0) flag(C03, "entry-guard-missing", e, "round %d: exit guard passed, entry guard of %d not consulted", i + 1, r.subj.d);
		if (r.eg_ev >= 0) {
			const Ev& g = e.tr[r.eg_ev];
			if (r.eg_ev < r.xg_ev) flag(C03, "guard-order", e, "round %d", i + 1);
			if (g.sid != r.subj.d) flag(C03, "entry-guard-of-wrong-state", e, "round %d: S%d consulted for destination %d", i + 1, g.sid, r.subj.d);
			if (g.pend != r.subj) flag(C03, "pending-differs-within-round", e, "round %d", i + 1);
			if (g.cur != acc) flag(C03, "current-transition-in-guard", e, "round %d: entry guard sees current %d>%d", i + 1, g.cur.o, g.cur.d);
		}
	}
	// a guard of a state with injections is the whole group: every injected guard can veto, so each one is consulted
	// (nothing is demanded of the members that follow a cancellation inside the same group)
	for (int i = 0; i < P.nr; ++i) { const Round& r = P.r[i];
		struct { int ev; bool cancel; int kind; const char* what; } g[3] = {{r.reg_ev, r.reg_cancel, 1, "entry guard of the head"}, {r.xg_ev, r.xg_cancel, 2, "exit guard"}, {r.eg_ev, r.eg_cancel, 3, "entry guard"}};
		for (int q = 0; q < 3; ++q) { if (g[q].ev < 0 || g[q].cancel) continue; const uint8_t sid = e.tr[g[q].ev].sid; const int k = sid == ROOT ? INJ_ROOT : (sid < N ? INJ_OF[sid] : 0);
			for (int j = 1; j <= k && j < 8; ++j) if (!(r.parts[g[q].kind] & (1u << j))) { flag(C03, "injected-guard-not-consulted", e, "round %d: the %s of %s%d was consulted without its injection %d of %d (that injection could have vetoed)", i + 1, g[q].what, sid == ROOT ? "R" : "S", sid == ROOT ? 0 : sid, j, k); break; } } }
	// (c) guard evaluation never runs enter/exit/reenter
	for (int k = 0; k < P.nlife; ++k) if (P.firstGuard >= 0 && P.life_ev[k] > P.firstGuard && P.life_ev[k] < P.lastGuard) flag(C03, "lifecycle-during-guards", e, "lifecycle ev %d between guard ev %d and %d", P.life_ev[k], P.firstGuard, P.lastGuard);
	// (d) a request made inside a guard is evaluated by a fresh round
	check_subject_chain(C03, e, P, true);
	// (e) a vetoed destination is entered only on account of a surviving request; fall back to the last survivor
	TxS W = TX_NONE; bool hasW = winner(P, W);
	const uint8_t expect = hasW ? W.d : (P.activation ? 0 : A);
	if (e.post.active != expect) flag(C03, "vetoed-transition-applied", e, "active=%d, last surviving request targets %d", e.post.active, expect);
	for (int k = 0; k < P.nlife; ++k) { const Ev& v = e.tr[P.life_ev[k]]; if (v.meth == M_ENTER && v.sid != ROOT && v.sid != expect) flag(C03, "entered-vetoed-destination", e, "enter(S%d), survivor is %d", v.sid, expect); }
}

// =========================================================================== C04
inline void m04(const Edge& e, const Parsed& P) {
	if (e.overflow) { flag(C04, "callback-budget-exceeded", e, "more than %d deliveries in one call: request processing does not terminate", G.budget); return; }
	if (!P.processing && !P.activation) return;
	if (P.structErr == 1) { flag(C04, "round-limit", e, "more than %d guard rounds", MAXR); return; }
	const int f = first_req_round(P);
	const int used = P.nr - f;
	if (used > L) flag(C04, "round-limit", e, "%d guard rounds, substitution limit is %d", used, L);
	if (P.activation && P.nr < 1) flag(C04, "initial-guard-evaluation-missing", e, "activation without evaluating the initial entry guards");
	// exactly one active state afterwards, chosen among requests that passed their guards
	if (e.post.active == NONE8 || e.post.active >= N || e.post.mask != (1u << e.post.active)) { flag(C04, "not-exactly-one-active", e, "active=%d mask=%x", e.post.active, e.post.mask); return; }
	bool among = e.post.active == (P.activation ? 0 : e.pre.active);
	// a request has passed its guards when the exit guards of the active state (none during activation) and the entry guards of its
	// destination were both consulted for it and none of them cancelled
	for (int i = f; i < P.nr; ++i) if (!P.r[i].cancelled && P.r[i].subj.d == e.post.active && P.r[i].eg_ev >= 0 && (P.activation || P.r[i].xg_ev >= 0)) among = true;
	if (!among) flag(C04, "active-not-among-survivors", e, "active=%d passed no guard round in this call", e.post.active);
	TxS W = TX_NONE; bool hasW = winner(P, W);
	if (e.post.active != (hasW ? W.d : (P.activation ? 0 : e.pre.active))) flag(C04, "limit-outcome", e, "active=%d, last surviving request targets %d", e.post.active, hasW ? W.d : -1);
	// the left-over request: present only when the limit was exhausted, and it is the last one made
	if (!P.structErr) {
		if (!tx_empty(e.post.req)) {
			if (used < L) flag(C04, "leftover-before-limit", e, "request %d>%d left over after %d of %d rounds", e.post.req.o, e.post.req.d, used, L);
			else if (P.nr && P.r[P.nr - 1].hasReq && !same_req(e.post.req, P.r[P.nr - 1].lastReq, true)) flag(C04, "leftover-mismatch", e, "left over %d>%d", e.post.req.o, e.post.req.d);
		} else if (used >= L && P.nr && P.r[P.nr - 1].hasReq && L > 0) flag(C04, "leftover-lost", e, "request made in the last permitted round vanished");
		// a request left over by an earlier call passes guards before it is applied
		if (!e.initial && !tx_empty(e.pre.req) && (e.op.k == OP_UPDATE || e.op.k == OP_REACT) && P.reqBeforeKnown) {
			bool replaced = !same_req(P.reqBefore, e.pre.req, true);
			if (!replaced) { if (P.nr <= f) flag(C04, "leftover-not-guarded", e, "left-over request not evaluated by guards"); else if (!same_req(P.r[f].subj, e.pre.req, true)) flag(C04, "leftover-not-guarded", e, "first round evaluates another request"); }
		}
	}
}
// passive calls never apply a left-over request
inline void m04_passive(const Edge& e, const Parsed& P) {
	if (e.initial || P.processing || P.activation) return;
	switch (e.op.k) { case OP_CHANGE: case OP_CHANGEW: case OP_QUERY: case OP_SAVE: case OP_ATTACH: case OP_PLAN_CHANGE: case OP_PLAN_CHANGEW: case OP_PLAN_CLEAR: case OP_PLAN_REMOVE: case OP_SUCCEED: case OP_FAIL: case OP_COPY:
		if (e.post.active != e.pre.active) flag(C04, "leftover-applied-without-guards", e, "active %d -> %d in a call that does not process requests", e.pre.active, e.post.active); break;
	default: break; }
}

// =========================================================================== C05
inline void m05(const Edge& e, const Parsed& P) {
	const uint8_t A = e.initial ? NONE8 : e.pre.active;
	// a const query a callback sends to its own machine reaches the head and the state active at that moment, each member once
	for (int i = 0; i < e.nev; ++i) { const Ev& v = e.tr[i]; if (v.kind == EV_MARK) break; if (v.kind == EV_CB && (v.ctl & 0x20)) { flag(C05, "reentrant-query", e, "ev %d: a query issued from %s of %s%d (machine reports state %d active) was not delivered to the head and that state exactly once each with the caller's object", i, METH_NAME[v.meth], v.sid == ROOT ? "R" : "S", v.sid == ROOT ? 0 : v.sid, v.m_active == NONE8 ? -1 : v.m_active); break; } }
	if (e.op.k == OP_UPDATE || e.op.k == OP_REACT) {
		const bool up = e.op.k == OP_UPDATE;
		const uint8_t pre = up ? M_PRE_UPDATE : M_PRE_REACT, mid = up ? M_UPDATE : M_REACT, post = up ? M_POST_UPDATE : M_POST_REACT;
		uint8_t wantS[6], wantM[6]; int n = 0;
		// (a state that does not define the callback itself contributes no delivery of its own; its injections are judged below)
		const bool evb = !up && e.op.a != 0;                            // the second event type: only the head and the states that handle it are reached
		const bool ownA = evb ? own_defined_evb(A) : true;
		if (VX_HEAD) { wantS[n] = ROOT; wantM[n++] = pre; } if (ownA && own_defined(A, pre)) { wantS[n] = A; wantM[n++] = pre; }
		if (VX_HEAD) { wantS[n] = ROOT; wantM[n++] = mid; } if (ownA && own_defined(A, mid)) { wantS[n] = A; wantM[n++] = mid; }
		if (ownA && own_defined(A, post)) { wantS[n] = A; wantM[n++] = post; } if (VX_HEAD) { wantS[n] = ROOT; wantM[n++] = post; }
		if (P.nphase != n) flag(C05, "phase-count", e, "%d phase callbacks, expected %d", P.nphase, n);
		for (int i = 0; i < P.nphase && i < n; ++i) {
			const Ev& v = e.tr[P.phase_ev[i]];
			if (v.sid != wantS[i] || v.meth != wantM[i]) { flag(C05, "phase-order", e, "phase callback %d is %s on %d, expected %s on %d", i, METH_NAME[v.meth], v.sid, METH_NAME[wantM[i]], wantS[i]); break; }
			if (!up && !(v.flags & OF_EVENT)) flag(C05, "event-identity", e, "callback %d did not receive the caller's event object", i);
		}
		// every phase callback precedes any guard, lifecycle or plan-outcome callback of the same call
		int firstOther = e.nev;
		if (P.firstGuard >= 0) firstOther = P.firstGuard;
		if (P.nlife && P.life_ev[0] < firstOther) firstOther = P.life_ev[0];
		if (P.nout && P.out_ev[0] < firstOther) firstOther = P.out_ev[0];
		if (P.nphase && P.phase_ev[P.nphase - 1] > firstOther) flag(C05, "phase-after-processing", e, "phase ev %d after ev %d", P.phase_ev[P.nphase - 1], firstOther);
		if (P.nquery) flag(C05, "query-in-cycle", e, "query callback during update/react");
		// injected callbacks belong to the phase of the state they are attached to: over all deliveries, own and injected, the position
		// in the cycle (root pre, state pre, root mid, state mid, state post, root post) never goes backwards
		{ int lastSlot = -1; for (int i = 0; i < e.nev; ++i) { const Ev& v = e.tr[i]; if (v.kind == EV_MARK) break; if (v.kind != EV_CB || !is_phase(v.meth)) continue;
			int slot = -1; for (int q = 0; q < n; ++q) if (wantS[q] == v.sid && wantM[q] == v.meth) slot = q;
			if (slot < 0) continue;   // reported above (wrong state) or below (inactive state)
			if (slot < lastSlot) { flag(C05, "phase-order", e, "ev %d: %s of %s%d (injection %d) delivered after the cycle had moved on to a later phase", i, METH_NAME[v.meth], v.sid == ROOT ? "R" : "S", v.sid == ROOT ? 0 : v.sid, v.inj); break; }
			lastSlot = slot;
			if (v.inj && !up && !(v.flags & OF_EVENT)) flag(C05, "event-identity", e, "ev %d: injected callback did not receive the caller's event object", i); } }
		// injections: callbacks of inactive states never run in the phases
		for (int i = 0; i < e.nev; ++i) { const Ev& v = e.tr[i]; if (v.kind == EV_MARK) break; if (v.kind == EV_CB && is_phase(v.meth) && v.sid != ROOT && v.sid != A) flag(C05, "inactive-state-phase", e, "ev %d: %s on inactive S%d", i, METH_NAME[v.meth], v.sid); }
		return;
	}
	if (e.op.k == OP_QUERY) {
		const int n = (VX_HEAD ? 1 : 0) + (own_defined(A, M_QUERY) ? 1 : 0);
		if (P.nquery != n) flag(C05, "query-count", e, "%d query callbacks, expected %d", P.nquery, n);
		// every member of a delivery group (the state, each of its injections) is asked once
		{ unsigned seen[2] = {0, 0}; for (int i = 0; i < e.nev; ++i) { const Ev& v = e.tr[i]; if (v.kind != EV_CB || v.meth != M_QUERY) continue; unsigned& w = seen[v.sid == ROOT ? 0 : 1]; if (v.sid != ROOT && v.sid != A) continue; if (w & (1u << v.inj)) { flag(C05, "query-delivered-twice", e, "ev %d: query delivered again to %s%d (injection %d)", i, v.sid == ROOT ? "R" : "S", v.sid == ROOT ? 0 : v.sid, v.inj); break; } w |= 1u << v.inj; } }
		for (int i = 0; i < P.nquery && i < n; ++i) {
			const Ev& v = e.tr[P.query_ev[i]];
			const uint8_t want = (VX_HEAD && i == 0) ? ROOT : A;
			if (v.sid != want) flag(C05, "query-order", e, "query %d delivered to %d, expected %d", i, v.sid, want);
			if (!(v.flags & OF_EVENT)) flag(C05, "event-identity", e, "query %d did not receive the caller's object", i);
		}
		for (int i = 0; i < e.nev; ++i) { const Ev& v = e.tr[i]; if (v.kind == EV_CB && v.meth != M_QUERY) flag(C05, "query-side-callback", e, "ev %d", i); }
		if (!e.key_unchanged) flag(C05, "query-modified-machine", e, "state differs after query()");
		return;
	}
	if (P.nphase || P.nquery) flag(C05, "phase-outside-cycle", e, "phase/query callbacks in a call that is not update/react/query");
}

// =========================================================================== C06
inline void m06(const Edge& e, const Parsed& P) {
	// expected outstanding request, tracked along the trace
	TxS req = e.initial ? TX_NONE : e.pre.req;
	if (e.op.k == OP_IMM) req = mkreq(NONE8, e.op.a, 0);
	if (e.op.k == OP_IMMW) req = mkreq(NONE8, e.op.a, e.op.b);
	if (e.op.k == OP_LOAD && e.op.a != N) req = TX_NONE;   // loading an activity drops the waiting request first; deactivation (exit, load of 'inactive') drops it after the exit callbacks
	bool reqKnown = true, reqTagKnown = true;
	int round = -1;
	for (int i = 0; i < e.nev; ++i) {
		const Ev& v = e.tr[i];
		if (v.kind == EV_MARK) break;
		if (v.kind == EV_LOG_TRANS) { bool echo = (i + 1 < e.nev && e.tr[i + 1].kind == EV_CHANGE); bool ext = (i == 0 && (e.op.k == OP_IMM || e.op.k == OP_IMMW)); if (!echo && !ext) { req = mkreq(v.sid, v.a, 0); reqTagKnown = false; } continue; }
		if (v.kind == EV_CHANGE) {
			req = mkreq(v.sid, v.a, v.b); reqKnown = true; reqTagKnown = true;
			if (v.c != v.sid) flag(C06, "request-origin", e, "ev %d: request made by %d records origin %d", i, v.sid, v.c);
			if (v.req.d != v.a) flag(C06, "request-destination", e, "ev %d", i);
			continue;
		}
		if (v.kind != EV_CB) continue;
		// the observation itself
		if (v.ctl_sid != v.sid) flag(C06, "control-stateId", e, "ev %d: control.stateId()=%d inside callback of %d", i, v.ctl_sid, v.sid);
		if (!(v.flags & OF_CTX)) flag(C06, "control-context", e, "ev %d: control.context() is not the machine's context object", i);
		if (v.ctl_mask != v.m_mask) flag(C06, "control-isActive", e, "ev %d (%s on %d): control.isActive mask %x, machine reports %x", i, METH_NAME[v.meth], v.sid, v.ctl_mask, v.m_mask);
		if (v.m_active != NONE8 && v.m_mask != (1u << v.m_active)) flag(C06, "machine-isActive", e, "ev %d: activeStateId()=%d, isActive mask %x", i, v.m_active, v.m_mask);
		if (is_guard(v.meth) && !P.structErr) {
			// the round this guard delivery (own or injected) belongs to: the last round that started at or before it
			int r = -1;
			for (int q = 0; q < P.nr; ++q) { int st = P.r[q].reg_ev >= 0 ? P.r[q].reg_ev : (P.r[q].xg_ev >= 0 ? P.r[q].xg_ev : P.r[q].eg_ev); if (st >= 0 && st <= i) r = q; }
			if (r >= 0) {
				if (r != round) { round = r; // a new round took the outstanding request as its subject
					if (r == first_req_round(P) && !P.reqBeforeKnown) reqKnown = false;
					if (r >= first_req_round(P) || !P.activation) { if (reqKnown && !same_req(v.pend, req, reqTagKnown) && !(P.activation && r == 0)) flag(C06, "pending-transition", e, "ev %d: pendingTransition() %d>%d, outstanding request was %d>%d", i, v.pend.o, v.pend.d, req.o, req.d); }
					req = TX_NONE; reqKnown = true; reqTagKnown = true; }
				if (v.pend != P.r[r].subj) flag(C06, "pending-transition", e, "ev %d: pendingTransition() differs from what the first guard of the round saw", i);
				TxS acc = accepted_before(P, r);
				if (v.cur != acc) flag(C06, "current-transition", e, "ev %d: currentTransition() %d>%d, accepted so far %d>%d", i, v.cur.o, v.cur.d, acc.o, acc.d);
			}
		} else if (is_life(v.meth)) {
			// after the rounds: a request survives only when the limit was exhausted; a dropped duplicate is gone
			if (round >= 0 || P.nr == 0) {
				const int used = P.nr - first_req_round(P);
				if (!tx_empty(req) && used < L && (P.processing || P.activation)) req = TX_NONE;
			}
		}
		if (reqKnown && !same_req(v.req, req, reqTagKnown)) flag(C06, "control-request", e, "ev %d (%s on %d): control.request() %d>%d, outstanding request is %d>%d", i, METH_NAME[v.meth], v.sid, v.req.o, v.req.d, req.o, req.d);
	}
}

// =========================================================================== C07
inline void m07(const Edge& e, const Parsed& P) {
#if VX_PAYLOAD
	auto bad = [](const TxS& t) { return t.set && (t.tag == 0xEE); };
	for (int i = 0; i < e.nev; ++i) { const Ev& v = e.tr[i]; if (v.kind != EV_CB) continue; if (bad(v.req) || bad(v.pend) || bad(v.cur) || bad(v.prev)) flag(C07, "payload-corrupt", e, "ev %d: a payload handed to user code matches no value ever supplied", i); }
	if (bad(e.post.prev) || bad(e.post.req)) flag(C07, "payload-corrupt", e, "post-state");
	if (!(P.processing || P.activation) || P.structErr) {
		if (e.op.k == OP_CHANGEW && !(e.post.req.set && e.post.req.tag == e.op.b)) flag(C07, "request-payload", e, "outstanding request lost its payload");
		if (e.op.k == OP_CHANGE && e.post.req.set) flag(C07, "request-payload", e, "payload-free request exposes a payload");
#if VX_HIST
		if ((e.op.k == OP_REPLAY_T || e.op.k == OP_REPLAY_E) && e.post.prev.set) flag(C07, "previous-payload", e, "after a replay (a transition without payload) previousTransition() exposes payload p%d", e.post.prev.tag);
#endif
		// no request is being processed in this call (load, exit, replay, ...): whatever callbacks it runs see no payload as "current"
		if (!P.structErr) for (int i = 0; i < e.nev; ++i) { const Ev& v = e.tr[i]; if (v.kind == EV_MARK) break; if (v.kind == EV_CB && (v.flags & OF_CUR) && v.cur.set) { flag(C07, "current-payload", e, "ev %d: %s of %d sees payload p%d as the current transition's although this call processes no request", i, METH_NAME[v.meth], v.sid, v.cur.tag); break; } }
		return;
	}
	const int f = first_req_round(P);
	// a request made in the last guard round cannot vanish together with its payload (or replace a payload-carrying one unseen): it is
	// evaluated next, left over at the limit, or is the origin-less payload-less duplicate the library is known to drop (DESIGN.md O12)
	if (P.nr > 0 && P.r[P.nr - 1].hasReq && (P.nr - f) < L && tx_empty(e.post.req)) {
		const TxS acc = accepted_before(P, P.nr); const TxS lr = P.r[P.nr - 1].lastReq;
		if ((acc.set || lr.set) && !is_dropped_duplicate(acc, lr)) flag(C07, "payload-request-dropped", e, "request %d>%d/p%d made in the last guard round was dropped unseen (accepted before it: %d>%d/p%d)", lr.o, lr.d, lr.tag, acc.o, acc.d, acc.tag);
	}
	// the payload the guards see is that of the request they evaluate
	if (P.nr > f && P.reqBeforeTagKnown && P.reqBeforeKnown && !tx_empty(P.reqBefore)) { const TxS& s = P.r[f].subj; if (same_od(s, P.reqBefore) && ((s.set != 0) != (P.reqBefore.set != 0) || s.tag != P.reqBefore.tag)) flag(C07, "pending-payload", e, "round 1: guards see payload p%d/%d, request carried p%d/%d", s.tag, s.set, P.reqBefore.tag, P.reqBefore.set); }
	for (int i = (P.activation ? 0 : f); i + 1 < P.nr; ++i) { const Round& r = P.r[i]; if (!r.hasReq) continue; const TxS& s = P.r[i + 1].subj; if (same_od(s, r.lastReq) && ((s.set != 0) != (r.lastReq.set != 0) || s.tag != r.lastReq.tag)) flag(C07, "pending-payload", e, "round %d: guards see payload p%d/%d, request carried p%d/%d", i + 2, s.tag, s.set, r.lastReq.tag, r.lastReq.set); }
	for (int i = 0; i < P.nr; ++i) { const Round& r = P.r[i]; if (r.xg_ev >= 0 && r.eg_ev >= 0 && e.tr[r.eg_ev].pend != e.tr[r.xg_ev].pend) flag(C07, "pending-payload-within-round", e, "round %d", i + 1); }
	// enter()/reenter() of the destination and previousTransition() afterwards expose the winner's payload
	TxS W = TX_NONE; bool hasW = winner(P, W);
	for (int k = 0; k < P.nlife; ++k) { const Ev& v = e.tr[P.life_ev[k]]; if (v.sid == ROOT) continue; if ((v.meth == M_ENTER || v.meth == M_REENTER) && hasW && v.sid == W.d) { if ((v.cur.set != 0) != (W.set != 0) || v.cur.tag != W.tag) flag(C07, "current-payload", e, "%s(S%d) sees payload p%d/%d, surviving request carried p%d/%d", METH_NAME[v.meth], v.sid, v.cur.tag, v.cur.set, W.tag, W.set); }
		if (!hasW && v.cur.set) flag(C07, "current-payload", e, "payload shown although no request survived"); }
#if VX_HIST
	if (hasW && !tx_empty(e.post.prev) && same_od(e.post.prev, W) && ((e.post.prev.set != 0) != (W.set != 0) || e.post.prev.tag != W.tag)) flag(C07, "previous-payload", e, "previousTransition() payload p%d/%d, surviving request carried p%d/%d", e.post.prev.tag, e.post.prev.set, W.tag, W.set);
	if (!hasW && e.post.prev.set) flag(C07, "previous-payload", e, "payload shown although no transition was applied");
#endif
#else
	(void)e; (void)P;
#endif
}

// =========================================================================== C11 (history part; the replica part lives in the explorer)
inline void m11(const Edge& e, const Parsed& P) {
#if VX_HIST
	if (e.terminal) return;
	if (P.processing || P.activation) {
		if (P.structErr) return;
		TxS W = TX_NONE; bool hasW = winner(P, W);
		// a request made in the last round that was neither vetoed nor evaluated nor left over replaced the accepted one without the
		// history noticing (the only drop the library is known to make is the origin-less, payload-less duplicate, DESIGN.md O12)
		if (P.nr > 0 && P.r[P.nr - 1].hasReq && (P.nr - first_req_round(P)) < L && tx_empty(e.post.req)) {
			const TxS acc = accepted_before(P, P.nr);
			if (!is_dropped_duplicate(acc, P.r[P.nr - 1].lastReq)) flag(C11, "history-misses-surviving-request", e, "request %d>%d/p%d made in the last guard round was not vetoed, yet previousTransition() = %d>%d/p%d", P.r[P.nr - 1].lastReq.o, P.r[P.nr - 1].lastReq.d, P.r[P.nr - 1].lastReq.tag, e.post.prev.o, e.post.prev.d, e.post.prev.tag);
		}
		if (!hasW) { if (!tx_empty(e.post.prev)) flag(C11, "history-not-empty", e, "previousTransition() = %d>%d although no transition was applied", e.post.prev.o, e.post.prev.d); }
		else {
			if (e.post.prev.d != e.post.active) flag(C11, "history-destination", e, "previousTransition().destination=%d, active=%d", e.post.prev.d, e.post.active);
			if (!same_od(e.post.prev, W)) flag(C11, "history-origin", e, "previousTransition() = %d>%d, surviving request %d>%d", e.post.prev.o, e.post.prev.d, W.o, W.d);
			if ((e.post.prev.set != 0) != (W.set != 0) || e.post.prev.tag != W.tag) flag(C11, "history-payload", e, "payload p%d, surviving request p%d", e.post.prev.tag, W.tag);
			// the surviving request as it was made (the payload its requester passed), not only as the guards were shown it
			{ int wi = -1; for (int i = first_req_round(P); i < P.nr; ++i) if (!P.r[i].cancelled) wi = i;
			  const int f = first_req_round(P); bool known = false; TxS made = TX_NONE;
			  if (wi == f) { known = P.reqBeforeKnown && P.reqBeforeTagKnown && !tx_empty(P.reqBefore); made = P.reqBefore; } else if (wi > f && P.r[wi - 1].hasReq) { known = P.r[wi - 1].reqTagKnown; made = P.r[wi - 1].lastReq; }
			  if (known && made.o == W.o && made.d == W.d && ((e.post.prev.set != 0) != (made.set != 0) || e.post.prev.tag != made.tag)) flag(C11, "history-payload", e, "previousTransition() carries payload p%d/%d, the surviving request %d>%d was made with p%d/%d", e.post.prev.tag, e.post.prev.set, made.o == NONE8 ? -1 : made.o, made.d, made.tag, made.set); }
		}
		return;
	}
	// a cycle that applied nothing leaves an empty history: a replica fed from it must stay where it is
	if ((e.op.k == OP_UPDATE || e.op.k == OP_REACT) && !tx_empty(e.post.prev) && e.post.active == e.pre.active && P.nlife == 0) flag(C11, "history-not-empty", e, "%s applied no transition, previousTransition() = %d>%d", OP_NAME[e.op.k], e.post.prev.o == NONE8 ? -1 : e.post.prev.o, e.post.prev.d);
	switch (e.op.k) {
	case OP_REPLAY_T: if (!e.res.ret) flag(C11, "replay-returned-false", e, "replayTransition(%d)", e.op.a); if (e.post.active != e.op.a) flag(C11, "replay-activity", e, "active=%d", e.post.active); if (!(e.post.prev.d == e.op.a)) flag(C11, "replay-history", e, "previousTransition().destination=%d", e.post.prev.d);
		if (e.post.prev.d == e.op.a && (e.post.prev.o != NONE8 || e.post.prev.set)) flag(C11, "replay-history", e, "after replayTransition(%d) previousTransition() = %d>%d/p%d: origin or payload of some earlier transition resurfaced", e.op.a, e.post.prev.o == NONE8 ? -1 : e.post.prev.o, e.post.prev.d, e.post.prev.tag);
		break;
	case OP_REPLAY_E: if (e.post.active != e.op.a) flag(C11, "replay-activity", e, "active=%d", e.post.active); if (!(e.post.prev.d == e.op.a)) flag(C11, "replay-history", e, "previousTransition().destination=%d", e.post.prev.d);
		// what was replayed is the bare destination: the history of the replica shows neither a requester nor a payload (whatever the instance did in an earlier activation)
		if (e.post.prev.d == e.op.a && (e.post.prev.o != NONE8 || e.post.prev.set)) flag(C11, "replay-history", e, "after replayEnter(%d) previousTransition() = %d>%d/p%d: origin or payload of some earlier transition resurfaced", e.op.a, e.post.prev.o == NONE8 ? -1 : e.post.prev.o, e.post.prev.d, e.post.prev.tag);
		break;
	case OP_LOAD: if (!tx_empty(e.post.prev) && e.post.prev.d != e.post.active) flag(C11, "history-stale-after-load", e, "after load() previousTransition().destination=%d while state %d is active: a replica fed this destination diverges", e.post.prev.d, e.post.active); break;
	case OP_REPLAY_T_INV: if (e.res.ret) flag(C11, "replay-invalid-returned-true", e, "replayTransition(INVALID)"); if (!e.key_unchanged) flag(C11, "replay-invalid-changed-state", e, "state differs after replayTransition(INVALID): previousTransition %d>%d -> %d>%d", e.pre.prev.o, e.pre.prev.d, e.post.prev.o, e.post.prev.d); if (P.ncb) flag(C11, "replay-invalid-callbacks", e, "%d callbacks", P.ncb); break;
	case OP_CHANGE: case OP_CHANGEW: case OP_QUERY: case OP_SAVE: case OP_ATTACH: case OP_PLAN_CHANGE: case OP_PLAN_CHANGEW: case OP_PLAN_CLEAR: case OP_PLAN_REMOVE: case OP_SUCCEED: case OP_FAIL: case OP_COPY:
		if (e.post.prev != e.pre.prev) flag(C11, "history-changed-by-passive-call", e, "previousTransition %d>%d -> %d>%d", e.pre.prev.o, e.pre.prev.d, e.post.prev.o, e.post.prev.d); break;
	default: break;
	}
#else
	(void)e; (void)P;
#endif
}

} // namespace vx
