// vx_alloc.hpp -- one definition per program: allocation interposition (C18). operator new/delete are replaced; malloc & co.
// are redirected by -Wl,--wrap in non-sanitizer builds (-DVX_WRAP_MALLOC). Allocations made while g_alloc.in_lib is set are counted.
#pragma once
#include "vx_core.hpp"
#include <new>
namespace vx { AllocGuard g_alloc; }
#ifndef VX_SAN   // the sanitizer runtimes bring their own operator new/delete; the plain build carries the allocation monitor
void* operator new(size_t n) { if (vx::g_alloc.in_lib) ++vx::g_alloc.hits; void* p = malloc(n ? n : 1); if (!p) abort(); return p; }
void* operator new[](size_t n) { if (vx::g_alloc.in_lib) ++vx::g_alloc.hits; void* p = malloc(n ? n : 1); if (!p) abort(); return p; }
void operator delete(void* p) noexcept { if (vx::g_alloc.in_lib) ++vx::g_alloc.hits; free(p); }
void operator delete[](void* p) noexcept { if (vx::g_alloc.in_lib) ++vx::g_alloc.hits; free(p); }
void operator delete(void* p, size_t) noexcept { if (vx::g_alloc.in_lib) ++vx::g_alloc.hits; free(p); }
void operator delete[](void* p, size_t) noexcept { if (vx::g_alloc.in_lib) ++vx::g_alloc.hits; free(p); }
#endif
#ifdef VX_WRAP_MALLOC
extern "C" {
void* __real_malloc(size_t); void* __real_calloc(size_t, size_t); void* __real_realloc(void*, size_t); void __real_free(void*);
void* __wrap_malloc(size_t n) { if (vx::g_alloc.in_lib) ++vx::g_alloc.hits; return __real_malloc(n); }
void* __wrap_calloc(size_t a, size_t b) { if (vx::g_alloc.in_lib) ++vx::g_alloc.hits; return __real_calloc(a, b); }
void* __wrap_realloc(void* p, size_t n) { if (vx::g_alloc.in_lib) ++vx::g_alloc.hits; return __real_realloc(p, n); }
void __wrap_free(void* p) { if (vx::g_alloc.in_lib && p) ++vx::g_alloc.hits; __real_free(p); }
}
#endif

