// fsmx.cpp -- explicit-state explorer over the real FFSM2 machine (see DESIGN.md section 4.1).
//   state  = complete mutable content of the instance (canonical key over every named field of CoreT)
//   edge   = one public API call + the vector of decisions taken by the scripted callbacks during it
//   search = breadth-first closure over states; per (state, call) a deviation-bounded DFS over decision vectors
// Every edge is executed on the real code; monitors (fsmx_monitors.hpp, fsmx_plans.hpp, ...) judge each edge.
#include "fsmx_monitors.hpp"
#include "fsmx_extra.hpp"
#include <sys/mman.h>
#include <sys/wait.h>
#include <sys/prctl.h>
#include <sys/time.h>
#include <errno.h>
#include <time.h>
#include <setjmp.h>
#include <signal.h>
#include <new>

namespace vx {


// --------------------------------------------------------------------------- options
struct Options {
	unsigned props = 0;            // bit per property
	int dev = 2;
	unsigned mf = 0, og = 0;
	int workers = 1;
	double deadline = 1e9;
	uint8_t prefill = 0xAA;
	const char* out = nullptr;
	const char* replay = nullptr;
	const char* name = "cfg";
	bool strategies = false;
	bool companions_replica = false, companions_copy = false, companions_load = false;
	int copy_dev = 1;
	bool verify_fresh = true;
	int samples = 3;
	bool verbose = false;
	bool list_trace = false;
	size_t max_states = 40000000;
} opt;

static double now() { timespec ts; clock_gettime(CLOCK_MONOTONIC, &ts); return ts.tv_sec + ts.tv_nsec * 1e-9; }
static double t_start;

// --------------------------------------------------------------------------- state graph
struct Parent { int32_t idx; Op op; uint8_t ndev; uint16_t pos[MAXDEV], alt[MAXDEV]; uint16_t depth; };
static Store store;
static Vec<Parent> parents;
static size_t KEYLEN = 0;
static Vec<Op> ops;

struct DevVec { int n; uint16_t pos[MAXDEV], alt[MAXDEV]; };

// --------------------------------------------------------------------------- violations
struct PredStat { int prop; const char* pred; unsigned long count; };
static PredStat preds[256]; static int npreds = 0;
static unsigned long viol_count[PROP_MAX];
struct ViolRec { int prop; const char* pred; char* replay; char* text; };
static Vec<ViolRec> viols;
static unsigned long n_edges = 0, n_validated = 0, n_dummy_unused = 0;
static uint64_t g_digest = 0;
static Set64 shapes;
static int max_depth_seen = 0;
static bool capped = false; static const char* cap_reason = "";

// shared slot: the edge currently executing in each worker (for crash attribution)
struct InFlight { int32_t pre_idx; Op op; DevVec dv; int phase; };
static InFlight* inflight = nullptr; static int my_worker = 0;

static void path_string(Text& t, long pre_idx, const Op* op, const DevVec* dv);
// the edge currently executing in this process (sanitizer death callback / crash attribution)
static long cur_pre_idx = -1; static Op cur_op; static DevVec cur_dv; static bool cur_valid = false;
// watchdog: a library call that neither returns nor delivers callbacks (e.g. a cyclic task list) would hang the explorer
static volatile unsigned long g_edge_seq = 0, g_wd_seen = 0; static volatile int g_wd_stuck = 0; static volatile int g_in_edge = 0;
static void on_watchdog(int) {
	if (!g_in_edge || g_edge_seq != g_wd_seen) { g_wd_seen = g_edge_seq; g_wd_stuck = 0; return; }
	if (++g_wd_stuck < 3) return;
	if (cur_valid) { Text t; path_string(t, cur_pre_idx, &cur_op, &cur_dv); fprintf(stderr, "\nVX-INFLIGHT replay=%s\nVX-HANG: this call did not return within the watchdog period\n", t.c()); fflush(stderr); }
	_exit(77);
}
// a fatal signal inside a library call (wild pointer, illegal instruction ...): name the edge, then die with a code the front end knows
static void on_crash(int sig) {
	static volatile int once = 0; if (once) _exit(78); once = 1;
	if (cur_valid) { Text t; path_string(t, cur_pre_idx, &cur_op, &cur_dv); fprintf(stderr, "\nVX-INFLIGHT replay=%s\nVX-CRASH: fatal signal %d while this call was executing\n", t.c(), sig); fflush(stderr); }
	_exit(78);
}
#ifdef VX_SAN
extern "C" void __sanitizer_set_death_callback(void (*cb)(void));
static void on_sanitizer_death() { if (!cur_valid) return; Text t; path_string(t, cur_pre_idx, &cur_op, &cur_dv); fprintf(stderr, "\nVX-INFLIGHT replay=%s\n", t.c()); fflush(stderr); }
#endif

static void path_string(Text& t, long pre_idx, const Op* op, const DevVec* dv) {
	// collect ancestors
	Vec<int32_t> chain; long i = pre_idx;
	while (i >= 0) { chain.push(static_cast<int32_t>(i)); i = parents[i].idx; }
	t.add("pf=%d;mf=%u;og=%u;", opt.prefill, opt.mf, opt.og);
	if (g_nids != N) { t.add("ids="); for (int q = 0; q < g_nids; ++q) t.add("%s%d", q ? "." : "", g_ids[q]); t.add(";"); }
	if (g_strategy_mode) { t.add("st="); for (int q = 0; q < 2 * N + 1; ++q) t.add("%s%d", q ? "." : "", G.strat[q]); t.add(";"); }
	t.add("path=");
	bool first = true;
	for (long k = static_cast<long>(chain.n) - 1; k >= 0; --k) {
		const Parent& p = parents[chain[k]];
		t.add("%s%d.%d.%d.%d:", first ? "" : "|", p.op.k, p.op.a, p.op.b, p.op.c); first = false;
		for (int j = 0; j < p.ndev; ++j) t.add("%s%d.%d", j ? "," : "", p.pos[j], p.alt[j]);
	}
	if (op) { t.add("%s%d.%d.%d.%d:", first ? "" : "|", op->k, op->a, op->b, op->c); for (int j = 0; dv && j < dv->n; ++j) t.add("%s%d.%d", j ? "," : "", dv->pos[j], dv->alt[j]); }
	free(chain.p);
}

static void history_text(Text& t, long pre_idx) {
	Vec<int32_t> chain; long i = pre_idx;
	while (i >= 0) { chain.push(static_cast<int32_t>(i)); i = parents[i].idx; }
	for (long k = static_cast<long>(chain.n) - 1; k >= 0; --k) {
		const Parent& p = parents[chain[k]]; op_text(t, p.op);
		if (p.ndev) { t.add("{"); for (int j = 0; j < p.ndev; ++j) t.add("%s%d.%d", j ? "," : "", p.pos[j], p.alt[j]); t.add("}"); }
		t.add("; ");
	}
	free(chain.p);
}

static const Edge* g_cur_edge = nullptr;
static bool g_replaying = false; static unsigned long g_replay_flags = 0;

void flag(int prop, const char* pred, const Edge& e, const char* fmt, ...) {
	if (!(opt.props & (1u << prop))) return;
	++viol_count[prop];
	PredStat* ps = nullptr;
	for (int i = 0; i < npreds; ++i) if (preds[i].prop == prop && !strcmp(preds[i].pred, pred)) { ps = &preds[i]; break; }
	if (!ps && npreds < 256) { ps = &preds[npreds++]; ps->prop = prop; ps->pred = pred; ps->count = 0; }
	if (ps) ++ps->count;
	if (g_replaying) ++g_replay_flags;
	if (ps && ps->count > 2 && !g_replaying) return;
	char msg[KEYMAX]; va_list ap; va_start(ap, fmt); vsnprintf(msg, sizeof msg, fmt, ap); va_end(ap);
	Text rp, tx;
	DevVec dv; dv.n = e.ndev; for (int i = 0; i < e.ndev; ++i) { dv.pos[i] = e.dev_pos[i]; dv.alt[i] = e.dev_alt[i]; }
	path_string(rp, e.pre_idx, &e.op, &dv);
	tx.add("C%02d %s: %s || history: ", prop, pred, msg); history_text(tx, e.pre_idx); tx.add("|| "); edge_text(tx, e, true);
	if (g_replaying) { printf("  FLAG %s\n", tx.c()); free(rp.p); free(tx.p); return; }
	ViolRec v{prop, pred, rp.p, tx.p}; viols.push(v);
}

// --------------------------------------------------------------------------- menus / ops
static void build_menus() {
	for (int root = 0; root < 2; ++root) {
		Vec<Act>& g = menuGuard[root]; g.clear(); g.push(Act{A_NONE, 0, 0, 0});
		if (opt.mf & MF_GUARD_REQ) for (int k_i = 0, k = g_ids[0]; k_i < g_nids; ++k_i, k = g_ids[k_i < g_nids ? k_i : 0]) g.push(Act{A_CHANGE, static_cast<uint8_t>(k), 0, 0});
#if VX_PAYLOAD
		if ((opt.mf & MF_GUARD_REQ) && (opt.mf & MF_PAYLOAD)) for (int k_i = 0, k = g_ids[0]; k_i < g_nids; ++k_i, k = g_ids[k_i < g_nids ? k_i : 0]) { g.push(Act{A_CHANGEW, static_cast<uint8_t>(k), 0, 1}); if (opt.mf & MF_PAYLOAD2) g.push(Act{A_CHANGEW, static_cast<uint8_t>(k), 0, 2}); }
#endif
#if VX_PLANS
		if ((opt.mf & MF_GUARD_REPORT) && !root) { g.push(Act{A_SUCCEED, 0, 0, 0}); g.push(Act{A_FAIL, 0, 0, 0}); }
#endif
		if (opt.mf & MF_GUARD_CANCEL) g.push(Act{A_CANCEL, 0, 0, 0});
#if VX_PAYLOAD
		if ((opt.mf & MF_GUARD_REQ) && (opt.mf & MF_GUARD_CANCEL) && (opt.mf & MF_PAYLOAD)) for (int k_i = 0, k = g_ids[0]; k_i < g_nids; ++k_i, k = g_ids[k_i < g_nids ? k_i : 0]) g.push(Act{A_CANCEL_CHANGEW, static_cast<uint8_t>(k), 0, 2});
#endif
		if ((opt.mf & MF_COMPOSITE) && (opt.mf & MF_GUARD_REQ) && (opt.mf & MF_GUARD_CANCEL)) for (int k_i = 0, k = g_ids[0]; k_i < g_nids; ++k_i, k = g_ids[k_i < g_nids ? k_i : 0]) g.push(Act{A_CHANGE_CANCEL, static_cast<uint8_t>(k), 0, 0});
		if ((opt.mf & MF_COMPOSITE) && (opt.mf & MF_GUARD_CANCEL)) g.push(Act{A_CANCEL2, 0, 0, 0});
		if ((opt.mf & MF_COMPOSITE) && (opt.mf & MF_GUARD_REQ)) for (int a_i = 0, a = g_ids[0]; a_i < g_nids; ++a_i, a = g_ids[a_i < g_nids ? a_i : 0]) for (int b_i = 0, b = g_ids[0]; b_i < g_nids; ++b_i, b = g_ids[b_i < g_nids ? b_i : 0]) g.push(Act{A_CHANGE2, static_cast<uint8_t>(a), static_cast<uint8_t>(b), 0});
#if VX_PAYLOAD
		if ((opt.mf & MF_COMPOSITE) && (opt.mf & MF_GUARD_REQ) && (opt.mf & MF_PAYLOAD)) for (int a_i = 0, a = g_ids[0]; a_i < g_nids; ++a_i, a = g_ids[a_i < g_nids ? a_i : 0]) for (int b_i = 0, b = g_ids[0]; b_i < g_nids; ++b_i, b = g_ids[b_i < g_nids ? b_i : 0]) { g.push(Act{A_CHANGEW_CHANGE, static_cast<uint8_t>(a), static_cast<uint8_t>(b), 1}); g.push(Act{A_CHANGE_CHANGEW, static_cast<uint8_t>(a), static_cast<uint8_t>(b), 2}); }
#endif
		// the hostile replica strategy uses the LAST entry: cancel and redirect
		if ((opt.mf & MF_GUARD_REQ) && (opt.mf & MF_GUARD_CANCEL)) for (int k_i = 0, k = g_ids[0]; k_i < g_nids; ++k_i, k = g_ids[k_i < g_nids ? k_i : 0]) g.push(Act{A_CANCEL_CHANGE, static_cast<uint8_t>(k), 0, 0});

		Vec<Act>& f = menuFull[root]; f.clear(); f.push(Act{A_NONE, 0, 0, 0});
		if (opt.mf & MF_PHASE_REQ) for (int k_i = 0, k = g_ids[0]; k_i < g_nids; ++k_i, k = g_ids[k_i < g_nids ? k_i : 0]) f.push(Act{A_CHANGE, static_cast<uint8_t>(k), 0, 0});
#if VX_PAYLOAD
		if ((opt.mf & MF_PHASE_REQ) && (opt.mf & MF_PAYLOAD)) for (int k_i = 0, k = g_ids[0]; k_i < g_nids; ++k_i, k = g_ids[k_i < g_nids ? k_i : 0]) { f.push(Act{A_CHANGEW, static_cast<uint8_t>(k), 0, 1}); if (opt.mf & MF_PAYLOAD2) f.push(Act{A_CHANGEW, static_cast<uint8_t>(k), 0, 2}); }
#endif
#if VX_PAYLOAD
		if ((opt.mf & MF_COMPOSITE) && (opt.mf & MF_PHASE_REQ) && (opt.mf & MF_PAYLOAD)) for (int k_i = 0, k = g_ids[0]; k_i < g_nids; ++k_i, k = g_ids[k_i < g_nids ? k_i : 0]) f.push(Act{A_CHANGEW_ALIAS, static_cast<uint8_t>(k), 0, 0});
#endif
#if VX_LOG
		if (opt.mf & MF_LOG_TOGGLE) { f.push(Act{A_LOG_ON, 0, 0, 0}); f.push(Act{A_LOG_OFF, 0, 0, 0}); }
#endif
		if ((opt.mf & MF_COMPOSITE) && (opt.mf & MF_PHASE_REQ)) for (int a_i = 0, a = g_ids[0]; a_i < g_nids; ++a_i, a = g_ids[a_i < g_nids ? a_i : 0]) for (int b_i = 0, b = g_ids[0]; b_i < g_nids; ++b_i, b = g_ids[b_i < g_nids ? b_i : 0]) f.push(Act{A_CHANGE2, static_cast<uint8_t>(a), static_cast<uint8_t>(b), 0});   /* incl. the same destination twice */
#if VX_PAYLOAD
		if ((opt.mf & MF_COMPOSITE) && (opt.mf & MF_PHASE_REQ) && (opt.mf & MF_PAYLOAD)) for (int a_i = 0, a = g_ids[0]; a_i < g_nids; ++a_i, a = g_ids[a_i < g_nids ? a_i : 0]) for (int b_i = 0, b = g_ids[0]; b_i < g_nids; ++b_i, b = g_ids[b_i < g_nids ? b_i : 0]) { f.push(Act{A_CHANGEW_CHANGE, static_cast<uint8_t>(a), static_cast<uint8_t>(b), 1}); f.push(Act{A_CHANGE_CHANGEW, static_cast<uint8_t>(a), static_cast<uint8_t>(b), 2}); }
#endif
#if VX_PLANS
		if ((opt.mf & MF_COMPOSITE) && (opt.mf & MF_REPORT) && !root) { f.push(Act{A_FAIL_SUCCEED, 0, 0, 0}); f.push(Act{A_SUCCEED_FAIL, 0, 0, 0}); if (opt.mf & MF_PHASE_REQ) for (int k_i = 0, k = g_ids[0]; k_i < g_nids; ++k_i, k = g_ids[k_i < g_nids ? k_i : 0]) { f.push(Act{A_SUCCEED_CHANGE, static_cast<uint8_t>(k), 0, 0}); f.push(Act{A_CHANGE_SUCCEED, static_cast<uint8_t>(k), 0, 0}); } }
		if (opt.mf & MF_REPORT) {
			if (!root) { f.push(Act{A_SUCCEED, 0, 0, 0}); f.push(Act{A_FAIL, 0, 0, 0}); }
			else for (int k_i = 0, k = g_ids[0]; k_i < g_nids; ++k_i, k = g_ids[k_i < g_nids ? k_i : 0]) { f.push(Act{A_SUCCEED_ID, static_cast<uint8_t>(k), 0, 0}); f.push(Act{A_FAIL_ID, static_cast<uint8_t>(k), 0, 0}); }
		}
		if ((opt.mf & MF_REPORT_OTHER) && !root) for (int k_i = 0, k = g_ids[0]; k_i < g_nids; ++k_i, k = g_ids[k_i < g_nids ? k_i : 0]) { f.push(Act{A_SUCCEED_ID, static_cast<uint8_t>(k), 0, 0}); f.push(Act{A_FAIL_ID, static_cast<uint8_t>(k), 0, 0}); }
		if (opt.mf & MF_PLAN_EDIT) {
			for (int o_i = 0, o = g_ids[0]; o_i < g_nids; ++o_i, o = g_ids[o_i < g_nids ? o_i : 0]) for (int d_i = 0, d = g_ids[0]; d_i < g_nids; ++d_i, d = g_ids[d_i < g_nids ? d_i : 0]) f.push(Act{A_PLAN_CHANGE, static_cast<uint8_t>(o), static_cast<uint8_t>(d), 0});
#if VX_PAYLOAD
			if (opt.mf & MF_PAYLOAD) for (int o_i = 0, o = g_ids[0]; o_i < g_nids; ++o_i, o = g_ids[o_i < g_nids ? o_i : 0]) for (int d_i = 0, d = g_ids[0]; d_i < g_nids; ++d_i, d = g_ids[d_i < g_nids ? d_i : 0]) f.push(Act{A_PLAN_CHANGEW, static_cast<uint8_t>(o), static_cast<uint8_t>(d), 1});
#endif
			f.push(Act{A_PLAN_CLEAR, 0, 0, 0});
		}
#endif
	}
	menuLife.clear(); menuLife.push(Act{A_NONE, 0, 0, 0});
#if VX_PLANS
	if (opt.mf & MF_LIFE_EDIT) { for (int o_i = 0, o = g_ids[0]; o_i < g_nids; ++o_i, o = g_ids[o_i < g_nids ? o_i : 0]) for (int d_i = 0, d = g_ids[0]; d_i < g_nids; ++d_i, d = g_ids[d_i < g_nids ? d_i : 0]) menuLife.push(Act{A_PLAN_CHANGE, static_cast<uint8_t>(o), static_cast<uint8_t>(d), 0}); menuLife.push(Act{A_PLAN_CLEAR, 0, 0, 0}); }
#endif
	G.mf = opt.mf;
}

static void build_ops() {
	ops.clear();
	auto add = [](uint8_t k, int a = 0, int b = 0, int c = 0) { ops.push(Op{k, static_cast<uint8_t>(a), static_cast<uint8_t>(b), static_cast<uint8_t>(c)}); };
	if (opt.og & OG_CORE) { add(OP_UPDATE); for (int k_i = 0, k = g_ids[0]; k_i < g_nids; ++k_i, k = g_ids[k_i < g_nids ? k_i : 0]) add(OP_CHANGE, k); }
#if !VX_TFORM
	if (opt.og & OG_WITHDRAW) { add(OP_CHANGE, NONE8); add(OP_IMM, NONE8); }
#endif
	if (opt.og & (OG_CORE | OG_IMM)) for (int k_i = 0, k = g_ids[0]; k_i < g_nids; ++k_i, k = g_ids[k_i < g_nids ? k_i : 0]) add(OP_IMM, k);
	if (opt.og & OG_REACT) { add(OP_REACT);
#if VX_EVB
		add(OP_REACT, 1);
#endif
	}
	if (opt.og & OG_QUERY) { add(OP_QUERY); add(OP_QUERY, 1); }
#if VX_PAYLOAD
	if (opt.og & OG_PAYLOAD) for (int k_i = 0, k = g_ids[0]; k_i < g_nids; ++k_i, k = g_ids[k_i < g_nids ? k_i : 0]) { add(OP_CHANGEW, k, 1); add(OP_IMMW, k, 1); if (opt.og & OG_PAYLOAD2) { for (int tg = 2; tg <= 4; ++tg) { add(OP_CHANGEW, k, tg); add(OP_IMMW, k, tg); } } }
#endif
#if VX_MANUAL
	if (opt.og & OG_MANUAL) { add(OP_ENTER); add(OP_EXIT); }
#endif
#if VX_HIST
	if (opt.og & OG_REPLAY) { for (int k_i = 0, k = g_ids[0]; k_i < g_nids; ++k_i, k = g_ids[k_i < g_nids ? k_i : 0]) add(OP_REPLAY_T, k); add(OP_REPLAY_T_INV);
#if VX_MANUAL
		for (int k_i = 0, k = g_ids[0]; k_i < g_nids; ++k_i, k = g_ids[k_i < g_nids ? k_i : 0]) add(OP_REPLAY_E, k);
#endif
	}
#endif
#if VX_SER
	if (opt.og & OG_SERIAL) { add(OP_SAVE); for (int k_i = 0, k = g_ids[0]; k_i < g_nids; ++k_i, k = g_ids[k_i < g_nids ? k_i : 0]) { add(OP_LOAD, k); add(OP_LOAD, k, 1); add(OP_LOAD, k, 2); }
#if VX_MANUAL
		add(OP_LOAD, N); add(OP_LOAD, N, 1);
#else
		add(OP_LOAD_BLANK);
#endif
	}
#endif
	if (opt.og & OG_COPY) add(OP_COPY);
#if !VX_MANUAL
	if (opt.og & OG_DESTROY) add(OP_DESTROY);
#endif
#if VX_LOG
	if (opt.og & OG_LOG) { add(OP_ATTACH, 0); add(OP_ATTACH, 1); }
#endif
#if VX_PLANS
	if (opt.og & OG_PLAN) { for (int o_i = 0, o = g_ids[0]; o_i < g_nids; ++o_i, o = g_ids[o_i < g_nids ? o_i : 0]) for (int d_i = 0, d = g_ids[0]; d_i < g_nids; ++d_i, d = g_ids[d_i < g_nids ? d_i : 0]) add(OP_PLAN_CHANGE, o, d); add(OP_PLAN_CLEAR);
#if VX_PAYLOAD
		if (opt.og & OG_PAYLOAD) for (int o_i = 0, o = g_ids[0]; o_i < g_nids; ++o_i, o = g_ids[o_i < g_nids ? o_i : 0]) for (int d_i = 0, d = g_ids[0]; d_i < g_nids; ++d_i, d = g_ids[d_i < g_nids ? d_i : 0]) add(OP_PLAN_CHANGEW, o, d, 1);
		if ((opt.og & OG_PAYLOAD) && (opt.og & OG_PAYLOAD2)) for (int o_i = 0, o = g_ids[0]; o_i < g_nids; ++o_i, o = g_ids[o_i < g_nids ? o_i : 0]) { add(OP_PLAN_CHANGEW, o, g_ids[0], 3); add(OP_PLAN_CHANGEW, o, g_ids[g_nids - 1], 4); }
#endif
	}
	if (opt.og & OG_PLAN_REMOVE) for (unsigned m = 1; m < (1u << TASK_CAP) && m < 64; ++m) add(OP_PLAN_REMOVE, static_cast<int>(m));
	if (opt.og & OG_REPORT) for (int k_i = 0, k = g_ids[0]; k_i < g_nids; ++k_i, k = g_ids[k_i < g_nids ? k_i : 0]) { add(OP_SUCCEED, k); add(OP_FAIL, k); }
#endif
}

static bool g_allow_exit_pending = true;    // exit()/destruction/load(<inactive>) are offered also while a request is outstanding (DESIGN.md O11); --no-exit-pending restores the narrower alphabet
// in-contract filter (DESIGN.md 4.3): asserted preconditions of the library
static bool op_enabled(const Op& op, const Abs& pre) {
	const bool active = pre.active != NONE8;
	switch (op.k) {
	case OP_ENTER: return !active && tx_empty(pre.req);
	case OP_REPLAY_E: return !active && tx_empty(pre.req);
	case OP_EXIT: case OP_DESTROY: return active && (tx_empty(pre.req) || g_allow_exit_pending);
	case OP_LOAD: if (op.b && op.a != (active ? pre.active : N)) return false;   /* the round trip through a reused buffer re-loads the current activity */
		return VX_MANUAL ? (op.a != N || !active || tx_empty(pre.req) || g_allow_exit_pending) : active;   // loading 'inactive' runs the final exit, which asserts that no request is outstanding
	case OP_SAVE: return VX_MANUAL ? true : active;
	case OP_COPY: return true;
	case OP_ATTACH: return true;
	case OP_PLAN_REMOVE: return active && op.a < (1u << pre.planlen);
	case OP_PLAN_CHANGE: case OP_PLAN_CHANGEW: case OP_PLAN_CLEAR: case OP_SUCCEED: case OP_FAIL: return active || VX_MANUAL;   // a manually activated machine can be given its plan and reports before enter()
	default: return active;
	}
}

// --------------------------------------------------------------------------- running one edge
static uint8_t g_prekey[KEYMAX], g_postkey[KEYMAX];
static Edge E;

static void run_edge(long pre_idx, const Abs* pre, const Op& op, const DevVec& dv) {
	memset(&E, 0, sizeof E);
	E.pre_idx = pre_idx; E.op = op; E.ndev = dv.n; for (int i = 0; i < dv.n; ++i) { E.dev_pos[i] = dv.pos[i]; E.dev_alt[i] = dv.alt[i]; }
	E.initial = op.k == OP_CONSTRUCT;
	if (inflight) { InFlight& f = inflight[my_worker]; f.pre_idx = static_cast<int32_t>(pre_idx); f.op = op; f.dv = dv; f.phase = 1; }
	cur_pre_idx = pre_idx; cur_op = op; cur_dv = dv; cur_valid = true; ++g_edge_seq; g_in_edge = 1;
	G.mode = g_strategy_mode ? DM_STRATEGY : DM_DFS;
	G.begin(dv.n, dv.pos, dv.alt);
	if (E.initial) {
		G.escape_armed = true;
		if (setjmp(G.escape) == 0) { g_alloc.in_lib = 1; construct(0, opt.prefill, op.a != 0); }
		G.escape_armed = false; g_alloc.in_lib = 0;
		memset(g_prekey, 0, KEYLEN);
	} else {
		memcpy(g_slot[0].bytes, store.snap(pre_idx), INST_SIZE);
		memcpy(g_prekey, store.key(pre_idx), KEYLEN);
		E.pre = *pre;
		E.logger_on = pre->logger;
		G.escape_armed = true;
		if (setjmp(G.escape) == 0) {
			if (op.k == OP_COPY) E.res = op_copy(E);
			else E.res = apply(op, 0);
		}   // else: the call was abandoned after exceeding the callback budget many times over (reported through E.overflow)
		G.escape_armed = false;
	}
	g_alloc.in_lib = 0;
	E.tr = G.tr; E.nev = G.nev; E.overflow = G.overflow; E.diverged = G.diverged; E.guard_cbs = G.guard_cbs;
	if (G.diverged) die("decision vector diverged while replaying a prefix (non-determinism in the harness)");
	E.terminal = op.k == OP_DESTROY;
	if (E.overflow) { E.terminal = false; memset(&E.post, 0, sizeof E.post); E.post.active = NONE8; g_in_edge = 0; return; }
	if (!E.terminal) { G.cur = inst(0); read_abs(*inst(0), E.post); size_t n = make_key(*inst(0), g_postkey); if (n != KEYLEN) die("key length changed"); E.key_unchanged = !E.initial && !memcmp(g_prekey, g_postkey, KEYLEN); }
	if (inflight) inflight[my_worker].phase = 2;
	g_in_edge = 0;
}

static void companions(const Edge& e) {
	if (!opt.companions_replica && !opt.companions_copy) return;
	g_comp.prekey = g_prekey; g_comp.postkey = g_postkey; g_comp.keylen = KEYLEN; g_comp.copy_dev = opt.copy_dev;
	g_comp.presnap = e.pre_idx >= 0 ? store.snap(e.pre_idx) : nullptr;
	if (opt.companions_copy && (opt.props & ((1u << C17) | (1u << C01) | (1u << C02) | (1u << C06) | (1u << C07) | (1u << C11) | (1u << C16) | (1u << C18)))) companion_copy(e);
	if (opt.companions_replica && (opt.props & ((1u << C11) | (1u << C18)))) companion_replica(e);
}

static void run_monitors(const Edge& e) {
	g_ghost_diverged = false;
	if (e.overflow && !(opt.props & (1u << C04))) {
		// the call kept delivering callbacks far beyond any bound the properties allow and was abandoned: like a crash or a hang, this is
		// reported by whichever check was exploring the call (C04 has its own wording for it)
		for (int q = 1; q < PROP_MAX; ++q) if (opt.props & (1u << q)) { flag(q, "call-did-not-return", e, "more than %d callback deliveries in one call: the call does not terminate", G.budget); break; }
		++n_validated; return;
	}
	Parsed P; parse(e, P);
	g_cur_edge = &e;
	const unsigned p = opt.props;
	if (p & (1u << C01)) m01(e, P);
	if (p & (1u << C02)) m02(e, P);
	if (p & (1u << C03)) m03(e, P);
	if (p & (1u << C04)) { m04(e, P); m04_passive(e, P); }
	if (p & (1u << C05)) m05(e, P);
	if (p & (1u << C06)) m06(e, P);
	if (p & (1u << C07)) m07(e, P);
	if (p & (1u << C11)) m11(e, P);
	extra_monitors(e, P, p);
	++n_validated;
}

static uint64_t edge_hash(const Edge& e) {
	uint64_t h = fnv(g_prekey, KEYLEN); h = fnv(&e.op, sizeof e.op, h); h = fnv(e.dev_pos, sizeof(uint16_t) * e.ndev, h); h = fnv(e.dev_alt, sizeof(uint16_t) * e.ndev, h);
	h = fnv(e.tr, sizeof(Ev) * e.nev, h); if (!e.terminal) h = fnv(g_postkey, KEYLEN, h);
	return mix(h);
}
static uint64_t shape_hash(const Edge& e) {
	uint64_t h = 1469598103934665603ull; h = fnv(&e.op.k, 1, h);
	for (int i = 0; i < e.nev; ++i) { uint8_t b[3] = {e.tr[i].kind, e.tr[i].sid, e.tr[i].meth}; h = fnv(b, 3, h); }
	return mix(h);
}

// feature-neutral view of an edge (C16, C19): what a program that uses neither plans, history, serialization nor logging can observe
static Set64 neutral_set; static uint64_t neutral_sum = 0; static unsigned want_neutral = 0;   // bit0 base view, bit1 + transition history, bit2 + plans, bit3 + serialization
static void neutral_add(const Edge& e) {
	uint64_t h = 1469598103934665603ull;
	uint8_t hd[16]; int n = 0;
	hd[n++] = e.initial ? 255 : e.pre.active; hd[n++] = e.initial ? 255 : e.pre.req.o; hd[n++] = e.initial ? 255 : e.pre.req.d; hd[n++] = e.initial ? 0 : e.pre.req.tag;
	hd[n++] = e.op.k; hd[n++] = e.op.k == OP_CONSTRUCT ? 0 : e.op.a; hd[n++] = e.op.b; hd[n++] = e.op.c;
	h = fnv(hd, n, h); h = fnv(e.dev_pos, sizeof(uint16_t) * e.ndev, h); h = fnv(e.dev_alt, sizeof(uint16_t) * e.ndev, h);
	if ((want_neutral & 2) && !e.initial) h = fnv(&e.pre.prev, sizeof(TxS), h);
	if ((want_neutral & 4) && !e.initial) { h = fnv(&e.pre.planlen, 1, h); h = fnv(e.pre.plan, sizeof(TxS) * (e.pre.planlen < MAXPLAN ? e.pre.planlen : MAXPLAN), h); }
	if ((want_neutral & 8) && e.op.k == OP_SAVE) { h = fnv(&e.res.saveOk, 1, h);
#if VX_SER
		h = fnv(&g_savebuf.buf, sizeof g_savebuf.buf, h);
#endif
	}
	h = fnv(&e.res.ret, 1, h);
	for (int i = 0; i < e.nev; ++i) {
		const Ev& v = e.tr[i];
		if (v.kind >= EV_LOG_METHOD && v.kind <= EV_LOG_PLAN) continue;
		uint8_t b[32]; int k = 0;
		b[k++] = v.kind; b[k++] = v.sid; b[k++] = v.meth; b[k++] = v.inj; b[k++] = v.a; b[k++] = v.b; b[k++] = v.c; b[k++] = v.r;
		if (v.kind == EV_CB) { b[k++] = v.ctl_sid; b[k++] = v.ctl_mask; b[k++] = v.m_active; b[k++] = v.m_mask; b[k++] = v.flags & (OF_CTX | OF_EVENT | OF_THIS); b[k++] = v.ctl;
			b[k++] = v.req.o; b[k++] = v.req.d; b[k++] = v.req.tag; b[k++] = v.pend.o; b[k++] = v.pend.d; b[k++] = v.pend.tag; b[k++] = v.cur.o; b[k++] = v.cur.d; b[k++] = v.cur.tag; }
		h = fnv(b, k, h);
		if (v.kind == EV_CB && (want_neutral & 2)) h = fnv(&v.prev, sizeof(TxS), h);
		if (v.kind == EV_CB && (want_neutral & 4)) { h = fnv(&v.planlen, 1, h); h = fnv(&v.planbool, 1, h); h = fnv(v.plan, sizeof(TxS) * (v.planlen < MAXPLAN ? v.planlen : MAXPLAN), h); }
	}
	if (!e.terminal) { uint8_t t[4] = {e.post.active, e.post.req.o, e.post.req.d, e.post.req.tag}; h = fnv(t, 4, h);
		if (want_neutral & 2) h = fnv(&e.post.prev, sizeof(TxS), h);
		if (want_neutral & 4) { h = fnv(&e.post.planlen, 1, h); h = fnv(e.post.plan, sizeof(TxS) * (e.post.planlen < MAXPLAN ? e.post.planlen : MAXPLAN), h); } }
	h = mix(h);
	if (neutral_set.add(h)) neutral_sum += h;
}

// samples: a few complete edges written out for the evidence file
static Vec<char*> sample_texts;
static void maybe_sample(const Edge& e) {
	if (static_cast<int>(sample_texts.n) >= opt.samples) return;
	// prefer edges with at least one decision and some callbacks
	if (e.ndev < (opt.dev > 0 ? 1 : 0) || e.nev < 3) return;
	if ((n_edges % 97) != 13 && sample_texts.n) return;
	Text t; t.add("history: "); history_text(t, e.pre_idx); t.add("|| "); edge_text(t, e, false);
	sample_texts.push(t.p);
}

// C09 look-ahead (see PlanGhost): default steps from a state whose report bits differ from the warranted ones; states met on
// the way are interned only for the duration of the look-ahead
static unsigned long n_lookahead = 0;
static void ghost_lookahead(long idx, PlanGhost gh, int depth) {
#if VX_PLANS
	if (n_lookahead > 50000) return;
	const size_t c0 = store.count;
	Abs pre; memcpy(g_slot[0].bytes, store.snap(idx), INST_SIZE); G.cur = inst(0); read_abs(*inst(0), pre);
	DevVec z; z.n = 0;
	for (size_t k = 0; k < ops.n; ++k) {
		if (!op_enabled(ops[k], pre) || ops[k].k == OP_COPY || ops[k].k == OP_ATTACH) continue;
		run_edge(idx, &pre, ops[k], z); ++n_lookahead;
		if (E.overflow || E.terminal) continue;
		Parsed P; parse(E, P);
		g_ghost_in = gh; g_ghost_in.valid = true; m_plans(E, P, opt.props & (1u << C09)); g_ghost_in.valid = false;
		const PlanGhost nxt = g_ghost_out;
		if (depth > 1 && nxt.valid) {
			bool isnew; size_t j = store.intern(g_postkey, g_slot[0].bytes, &isnew);
			if (isnew) { Parent p; memset(&p, 0, sizeof p); p.idx = static_cast<int32_t>(idx); p.op = ops[k]; p.depth = static_cast<uint16_t>(parents[idx].depth + 1); parents.push(p); }
			ghost_lookahead(static_cast<long>(j), nxt, depth - 1);
		}
	}
	if (store.count != c0) { store.rollback(c0); parents.n = c0; }
#else
	(void)idx; (void)gh; (void)depth;
#endif
}

static void explore_op(long pre_idx, const Abs* pre, const Op& op, int maxdev, bool monitors, bool discover) {
	static Vec<DevVec> stack;
	stack.clear(); DevVec z; z.n = 0; stack.push(z);
	while (stack.n) {
		DevVec dv = stack[--stack.n];
		run_edge(pre_idx, pre, op, dv);
		++n_edges;
		const int nch = G.nch; uint16_t menu[MAXCH]; memcpy(menu, G.menu, sizeof(uint16_t) * nch);
		if (monitors) { run_monitors(E); g_digest += edge_hash(E); shapes.add(shape_hash(E)); maybe_sample(E); if (want_neutral && E.op.k != OP_ATTACH) neutral_add(E); }
		if (E.overflow && !monitors && (opt.props & (1u << C04))) { /* reported in the monitored pass */ }
		if (!E.terminal && !E.overflow) {
			if (discover) {
				bool isnew; size_t idx = store.intern(g_postkey, g_slot[0].bytes, &isnew);
				if (isnew) {
					Parent p; memset(&p, 0, sizeof p); p.idx = static_cast<int32_t>(pre_idx); p.op = op; p.ndev = static_cast<uint8_t>(dv.n); for (int i = 0; i < dv.n; ++i) { p.pos[i] = dv.pos[i]; p.alt[i] = dv.alt[i]; }
					p.depth = static_cast<uint16_t>(pre_idx >= 0 ? parents[pre_idx].depth + 1 : 0);
					if (p.depth > max_depth_seen) max_depth_seen = p.depth;
					parents.push(p); (void)idx;
				}
			} else if (store.find(g_postkey) < 0) die("closure violated: successor state not in the closed set (op %s)", OP_NAME[op.k]);
		}
		if (monitors) companions(E);   // after interning: companions re-use slot 0
		if (monitors && (opt.props & (1u << C09)) && g_ghost_diverged && !E.terminal && !E.overflow) { const long pi = store.find(g_postkey); const PlanGhost gh = g_ghost_out; if (pi >= 0 && gh.valid) ghost_lookahead(pi, gh, 3); }
		if (dv.n < maxdev) {
			const int start = dv.n ? dv.pos[dv.n - 1] + 1 : 0;
			for (int i = nch - 1; i >= start; --i) for (int alt = menu[i] - 1; alt >= 1; --alt) { DevVec c = dv; c.pos[c.n] = static_cast<uint16_t>(i); c.alt[c.n] = static_cast<uint16_t>(alt); ++c.n; stack.push(c); }
		}
	}
}

static void initial_ops(Vec<Op>& out) {
	out.clear(); out.push(Op{OP_CONSTRUCT, 0, 0, 0});
#if VX_LOG
	out.push(Op{OP_CONSTRUCT, 1, 0, 0});
#endif
}

// expands one state completely
static FILE* g_dump_counts = nullptr;
static void expand(long idx, int maxdev, bool monitors, bool discover) {
	const unsigned long e0 = n_edges;
	struct Tail { long idx; unsigned long e0; ~Tail() { if (g_dump_counts) { fprintf(g_dump_counts, "%016llx %lu\n", static_cast<unsigned long long>(fnv(store.key(idx), KEYLEN)), n_edges - e0); fflush(g_dump_counts); } } } tail{idx, e0};
	Abs pre; memcpy(g_slot[0].bytes, store.snap(idx), INST_SIZE); G.cur = inst(0); read_abs(*inst(0), pre);
	for (size_t k = 0; k < ops.n; ++k) if (op_enabled(ops[k], pre)) explore_op(idx, &pre, ops[k], maxdev, monitors, discover);
}

// re-derives a state by replaying its witness history on a fresh instance in differently pre-filled storage
static bool replay_path_to(long idx, uint8_t prefill, uint8_t* keyout) {
	Vec<int32_t> chain; long i = idx; while (i >= 0) { chain.push(static_cast<int32_t>(i)); i = parents[i].idx; }
	uint8_t saved = opt.prefill; opt.prefill = prefill;
	bool ok = true;
	for (long k = static_cast<long>(chain.n) - 1; k >= 0 && ok; --k) {
		const Parent& p = parents[chain[k]];
		G.mode = DM_DFS; G.begin(p.ndev, p.pos, p.alt);
		if (p.op.k == OP_CONSTRUCT) { g_alloc.in_lib = 1; construct(0, prefill, p.op.a != 0); g_alloc.in_lib = 0; }
		else { if (p.op.k == OP_COPY) { Edge tmp; memset(&tmp, 0, sizeof tmp); tmp.op = p.op; op_copy(tmp); } else apply(p.op, 0); }
		if (G.diverged) ok = false;
	}
	opt.prefill = saved;
	make_key(*inst(0), keyout);
	free(chain.p);
	return ok;
}

// --------------------------------------------------------------------------- result files
static void write_worker_results(const char* path) {
	FILE* f = fopen(path, "w"); if (!f) die("cannot write %s", path);
	fprintf(f, "edges %lu\nvalidated %lu\ncompanion %lu\ndigest %llu\nallochits %lu\n", n_edges, n_validated, n_companion_runs, static_cast<unsigned long long>(g_digest), g_alloc.hits);
	for (int p = 1; p < PROP_MAX; ++p) if (viol_count[p]) fprintf(f, "count %d %lu\n", p, viol_count[p]);
	for (int i = 0; i < npreds; ++i) fprintf(f, "pred %d %s %lu\n", preds[i].prop, preds[i].pred, preds[i].count);
	for (size_t i = 0; i < viols.n; ++i) { fprintf(f, "viol %d %s\t%s\t", viols[i].prop, viols[i].pred, viols[i].replay); for (const char* c = viols[i].text; *c; ++c) fputc(*c == '\n' || *c == '\t' ? ' ' : *c, f); fputc('\n', f); }
	for (size_t i = 0; i < shapes.t.n; ++i) if (shapes.t[i]) fprintf(f, "shape %llu\n", static_cast<unsigned long long>(shapes.t[i]));
	for (size_t i = 0; i < sample_texts.n; ++i) { fprintf(f, "sample "); for (const char* c = sample_texts[i]; *c; ++c) fputc(*c == '\n' ? ' ' : *c, f); fputc('\n', f); }
	fclose(f);
}

struct Merged {
	unsigned long edges = 0, validated = 0, companion = 0, allochits = 0; uint64_t digest = 0;
	unsigned long count[PROP_MAX] = {0};
	Vec<char*> viol_lines, pred_lines, samples; Set64 shapes;
};
static void merge_file(const char* path, Merged& m) {
	FILE* f = fopen(path, "r"); if (!f) return;
	char* line = nullptr; size_t cap = 0; ssize_t n;
	while ((n = getline(&line, &cap, f)) > 0) {
		if (line[n - 1] == '\n') line[n - 1] = 0;
		unsigned long a; unsigned long long d; int p;
		if (sscanf(line, "edges %lu", &a) == 1) m.edges += a;
		else if (sscanf(line, "validated %lu", &a) == 1) m.validated += a;
		else if (sscanf(line, "companion %lu", &a) == 1) m.companion += a;
		else if (sscanf(line, "allochits %lu", &a) == 1) m.allochits += a;
		else if (sscanf(line, "digest %llu", &d) == 1) m.digest += d;
		else if (sscanf(line, "count %d %lu", &p, &a) == 2) m.count[p] += a;
		else if (!strncmp(line, "pred ", 5)) m.pred_lines.push(strdup(line + 5));
		else if (!strncmp(line, "viol ", 5)) m.viol_lines.push(strdup(line + 5));
		else if (sscanf(line, "shape %llu", &d) == 1) m.shapes.add(d);
		else if (!strncmp(line, "sample ", 7)) m.samples.push(strdup(line + 7));
	}
	free(line); fclose(f);
}

static void write_json(const Merged& m, size_t nstates, bool exhaustive, double wall, const char* extra) {
	FILE* f = opt.out ? fopen(opt.out, "w") : stdout; if (!f) die("cannot write %s", opt.out);
	fprintf(f, "{\"config\":"); json_str(f, opt.name);
	fprintf(f, ",\"n\":%d,\"head\":%d,\"manual\":%d,\"payload\":%d,\"limit\":%d,\"cap\":%d,\"plans\":%d,\"log\":%d,\"hist\":%d,\"ser\":%d", N, VX_HEAD, VX_MANUAL, VX_PAYLOAD, VX_L, TASK_CAP, VX_PLANS, VX_LOG, VX_HIST, VX_SER);
	fprintf(f, ",\"states\":%zu,\"transitions\":%lu,\"validated\":%lu,\"companion_runs\":%lu,\"max_depth\":%d,\"dev_bound\":%d,\"ops\":%zu", nstates, m.edges, m.validated, m.companion, max_depth_seen, opt.dev, ops.n);
	fprintf(f, ",\"exhaustive\":%s,\"capped\":", exhaustive ? "true" : "false"); json_str(f, cap_reason);
	fprintf(f, ",\"distinct_trace_shapes\":%zu,\"digest\":\"%016llx\",\"prefill\":%d,\"alloc_hits\":%lu,\"wall_s\":%.2f", m.shapes.count, static_cast<unsigned long long>(m.digest), opt.prefill, m.allochits, wall);
	fprintf(f, ",\"violations\":{");
	bool first = true;
	for (int p = 1; p < PROP_MAX; ++p) if (m.count[p]) { fprintf(f, "%s\"C%02d\":%lu", first ? "" : ",", p, m.count[p]); first = false; }
	fprintf(f, "},\"predicates\":[");
	for (size_t i = 0; i < m.pred_lines.n; ++i) { fprintf(f, "%s", i ? "," : ""); json_str(f, m.pred_lines[i]); }
	fprintf(f, "],\"witnesses\":[");
	for (size_t i = 0; i < m.viol_lines.n && i < 200; ++i) {
		char* l = m.viol_lines[i]; char* t1 = strchr(l, '\t'); char* t2 = t1 ? strchr(t1 + 1, '\t') : nullptr;
		if (!t1 || !t2) continue; *t1 = 0; *t2 = 0; int p = 0; char pred[128] = ""; sscanf(l, "%d %127s", &p, pred);
		fprintf(f, "%s{\"property\":\"C%02d\",\"pred\":", i ? "," : "", p); json_str(f, pred); fprintf(f, ",\"replay\":"); json_str(f, t1 + 1); fprintf(f, ",\"text\":"); json_str(f, t2 + 1); fprintf(f, "}");
	}
	fprintf(f, "],\"samples\":[");
	for (size_t i = 0; i < m.samples.n && i < 6; ++i) { fprintf(f, "%s", i ? "," : ""); json_str(f, m.samples[i]); }
	fprintf(f, "]%s}\n", extra ? extra : "");
	if (opt.out) fclose(f);
}

// --------------------------------------------------------------------------- strategy sweep (stationary guard adversaries)
static void run_strategies(Merged& total, size_t& nstates_total, bool& exhaustive);

// --------------------------------------------------------------------------- main exploration
static int explore_main() {
	t_start = now();
	build_menus(); build_ops();
	prepare_extras();
	{ // key length and store
		G.mode = DM_QUIET; uint16_t none = 0; G.begin(0, &none, &none);
		construct(2, 0x00, false); uint8_t tmp[KEYMAX]; KEYLEN = make_key(*inst(2), tmp); if (KEYLEN > sizeof g_prekey) die("key too long");
#if !VX_MANUAL
		G.cur = inst(2); inst(2)->~Inst();
#endif
	}
	Merged M; size_t nstates = 0; bool exhaustive = true;
	if (opt.strategies) { run_strategies(M, nstates, exhaustive); write_json(M, nstates, exhaustive, now() - t_start, nullptr); return M.count[0] ? 1 : 0; }

	store.init(KEYLEN, INST_SIZE);
	const int W = opt.workers < 1 ? 1 : opt.workers;
	inflight = static_cast<InFlight*>(mmap(nullptr, sizeof(InFlight) * (W + 1), PROT_READ | PROT_WRITE, MAP_SHARED | MAP_ANONYMOUS, -1, 0));
	// level-synchronous breadth-first search; large levels are expanded by W forked workers (each with the monitors on),
	// the parent merges the states they discovered. Small levels are expanded in this process.
	Vec<Op> init; initial_ops(init);
	for (size_t k = 0; k < init.n; ++k) explore_op(-1, nullptr, init[k], opt.dev, true, true);
	Vec<uint32_t> level; for (size_t i = 0; i < store.count; ++i) level.push(static_cast<uint32_t>(i));
	const char* outbase = opt.out ? opt.out : "/tmp/fsmx_noout";
	int nlevels = 0;
	while (level.n && !capped) {
		++nlevels;
		if (now() - t_start > opt.deadline) { capped = true; cap_reason = "deadline reached during search"; break; }
		if (store.count > opt.max_states) { capped = true; cap_reason = "state cap reached"; break; }
		const size_t base = store.count;
		if (W <= 1 || level.n < static_cast<size_t>(2 * W)) {
			for (size_t k = 0; k < level.n; ++k) { if ((k & 63) == 0 && now() - t_start > opt.deadline) { capped = true; cap_reason = "deadline reached during search"; break; } expand(level[k], opt.dev, true, true); }
		} else {
			Vec<pid_t> pids; fflush(nullptr);
			for (int w = 0; w < W; ++w) {
				pid_t pid = fork();
				if (pid < 0) die("fork failed");
				if (pid == 0) {
					prctl(PR_SET_PDEATHSIG, SIGKILL);
					my_worker = w; n_edges = 0; n_validated = 0; n_companion_runs = 0; g_digest = 0; shapes = Set64(); neutral_set = Set64(); neutral_sum = 0; viols.clear(); npreds = 0; memset(viol_count, 0, sizeof viol_count); sample_texts.clear(); g_alloc.hits = 0;
					bool wcap = false;
					for (size_t k = w; k < level.n; k += W) { if ((k & 63) == static_cast<size_t>(w & 63) && now() - t_start > opt.deadline) { wcap = true; break; } expand(level[k], opt.dev, true, true); }
					char path[700]; snprintf(path, sizeof path, "%s.s%d", outbase, w);
					FILE* f = fopen(path, "wb"); if (!f) die("cannot write %s", path);
					for (size_t i = base; i < store.count; ++i) { fwrite(store.key(i), 1, KEYLEN, f); fwrite(store.snap(i), 1, INST_SIZE, f); fwrite(&parents[i], sizeof(Parent), 1, f); }
					fclose(f);
					if (want_neutral) { snprintf(path, sizeof path, "%s.n%d", outbase, w); FILE* nf = fopen(path, "wb"); if (!nf) die("cannot write %s", path); for (size_t i = 0; i < neutral_set.t.n; ++i) if (neutral_set.t[i]) fwrite(&neutral_set.t[i], 8, 1, nf); fclose(nf); }
					snprintf(path, sizeof path, "%s.w%d", outbase, w);
					write_worker_results(path);
					if (wcap) { FILE* g = fopen(path, "a"); fprintf(g, "capped 1\n"); fclose(g); }
					fflush(nullptr); _exit(0);
				}
				pids.push(pid);
			}
			Vec<uint8_t> rec; rec.reserve(KEYLEN + INST_SIZE + sizeof(Parent));
			for (int w = 0; w < W; ++w) {
				int st = 0; while (waitpid(pids[w], &st, 0) < 0 && errno == EINTR) {}
				char path[700]; snprintf(path, sizeof path, "%s.w%d", outbase, w);
				if (!WIFEXITED(st) || WEXITSTATUS(st) != 0) {
					InFlight& f = inflight[w]; Text rp; path_string(rp, f.pre_idx, &f.op, &f.dv);
					char line[4096]; snprintf(line, sizeof line, "%d crash\t%s\tworker %d %s while executing this edge (status 0x%x)", C18, rp.c(), w, (WIFEXITED(st) && WEXITSTATUS(st) == 77) ? "was stopped by the watchdog: the call did not return" : "terminated abnormally: undefined behaviour / sanitizer report, see stderr", st);
					M.viol_lines.push(strdup(line)); M.count[C18] += 1; M.pred_lines.push(strdup("18 crash 1"));
					exhaustive = false; capped = true; cap_reason = "worker crashed";
				} else {
					{ unsigned long before = M.edges; merge_file(path, M); if (getenv("VX_DEBUG_MERGE")) fprintf(stderr, "level %d worker %d edges %lu (states in level %zu)\n", nlevels, w, M.edges - before, level.n); }
					FILE* f = fopen(path, "r"); if (f) { char* l = nullptr; size_t c = 0; while (getline(&l, &c, f) > 0) if (!strncmp(l, "capped", 6)) { capped = true; cap_reason = "deadline reached during search"; } free(l); fclose(f); }
					snprintf(path, sizeof path, "%s.s%d", outbase, w);
					f = fopen(path, "rb");
					if (f) { const size_t rl = KEYLEN + INST_SIZE + sizeof(Parent); while (fread(rec.p, 1, rl, f) == rl) { bool isnew; store.intern(rec.p, rec.p + KEYLEN, &isnew); if (isnew) { Parent p; memcpy(&p, rec.p + KEYLEN + INST_SIZE, sizeof p); if (p.depth > max_depth_seen) max_depth_seen = p.depth; parents.push(p); } } fclose(f); }
				}
				if (want_neutral) { snprintf(path, sizeof path, "%s.n%d", outbase, w); FILE* nf = fopen(path, "rb"); if (nf) { uint64_t hv; while (fread(&hv, 8, 1, nf) == 1) if (neutral_set.add(hv)) neutral_sum += hv; fclose(nf); } unlink(path); }
				snprintf(path, sizeof path, "%s.w%d", outbase, w); unlink(path);
				snprintf(path, sizeof path, "%s.s%d", outbase, w); unlink(path);
			}
		}
		level.clear(); for (size_t i = base; i < store.count; ++i) level.push(static_cast<uint32_t>(i));
	}
	nstates = store.count;
	const double t_closure = now() - t_start;
	if (opt.verbose) fprintf(stderr, "[%s] search: states=%zu levels=%d depth=%d %.1fs%s\n", opt.name, nstates, nlevels, max_depth_seen, t_closure, capped ? " (CAPPED)" : "");
	// fresh-instance re-derivation of every state from its witness history, in differently pre-filled storage
	unsigned long rederived = 0, rederive_bad = 0;
	if (opt.verify_fresh && !capped) {
		uint8_t k2[KEYMAX];
		for (size_t i = 0; i < store.count; ++i) {
			if ((i & 1023) == 0 && now() - t_start > opt.deadline) { capped = true; cap_reason = "deadline reached during re-derivation"; break; }
			const uint8_t pf = static_cast<uint8_t>(opt.prefill == 0x00 ? 0xFF : 0x00);
			bool ok = replay_path_to(static_cast<long>(i), pf, k2);
			++rederived;
			if (!ok || memcmp(k2, store.key(i), KEYLEN)) {
				++rederive_bad;
				if (opt.props & (1u << C17)) { Edge e; memset(&e, 0, sizeof e); e.pre_idx = static_cast<long>(i); e.op = Op{OP_QUERY, 0, 0, 0}; e.terminal = true; flag(C17, "state-depends-on-storage-prefill", e, "replaying the witness history on a fresh instance in storage pre-filled with 0x%02x yields a different state", pf); }
			}
		}
	}
	if (capped) exhaustive = false;
	{ // what this process itself executed
		char path[700]; snprintf(path, sizeof path, "%s.w%d", outbase, W);
		write_worker_results(path); merge_file(path, M); unlink(path);
	}
	char extra[384]; snprintf(extra, sizeof extra, ",\"closure_s\":%.2f,\"rederived\":%lu,\"rederive_mismatch\":%lu,\"neutral_digest\":\"%016llx\",\"neutral_tuples\":%zu", t_closure, rederived, rederive_bad, static_cast<unsigned long long>(neutral_sum), neutral_set.count);
	write_json(M, nstates, exhaustive, now() - t_start, extra);
	unsigned long total = 0; for (int p = 1; p < PROP_MAX; ++p) total += M.count[p];
	return total ? 1 : 0;
}

// --------------------------------------------------------------------------- stationary strategies
static void run_strategies(Merged& M, size_t& nstates_total, bool& exhaustive) {
	const int nsites = 2 * N + (VX_HEAD ? 1 : 0);
	build_menus();
	const unsigned nd0 = static_cast<unsigned>(menuGuard[0].n), nd1 = static_cast<unsigned>(menuGuard[1].n);
	// number of strategies = nd0^(2N) * nd1^(head)
	double total = 1; for (int i = 0; i < 2 * N; ++i) total *= nd0; if (VX_HEAD) total *= nd1;
	if (total > 4e9) die("too many strategies");
	const unsigned long nstrat = static_cast<unsigned long>(total);
	const int W = opt.workers < 1 ? 1 : opt.workers;
	Vec<pid_t> pids; fflush(nullptr);
	inflight = static_cast<InFlight*>(mmap(nullptr, sizeof(InFlight) * W, PROT_READ | PROT_WRITE, MAP_SHARED | MAP_ANONYMOUS, -1, 0));
	for (int w = 0; w < W; ++w) {
		pid_t pid = W == 1 ? 0 : fork();
		if (pid == 0) {
			if (W > 1) prctl(PR_SET_PDEATHSIG, SIGKILL);
			my_worker = w; unsigned long nst = 0;
			for (unsigned long s = w; s < nstrat; s += W) {
				if ((s & 63) == 0 && now() - t_start > opt.deadline) { capped = true; break; }
				unsigned long x = s; for (int i = 0; i < 2 * N; ++i) { G.strat[i] = static_cast<uint8_t>(x % nd0); x /= nd0; } if (VX_HEAD) G.strat[2 * N] = static_cast<uint8_t>(x % nd1);
				// mini closure under this strategy
				store = Store(); store.init(KEYLEN, INST_SIZE); parents.clear(); max_depth_seen = 0;
				// strategies are encoded in the replay string through the op.c byte of the construct op? they do not fit; record them as a pseudo path prefix
				auto run = [&](long pre_idx, const Abs* pre, const Op& op) {
					DevVec dv; dv.n = 0; run_edge(pre_idx, pre, op, dv);
				};
				Vec<Op> init; initial_ops(init);
				for (size_t k = 0; k < init.n; ++k) {
					G.mode = DM_STRATEGY;
					// run_edge forces DM_DFS; strategies are applied through a mode override
					g_strategy_mode = true;
					run(-1, nullptr, init[k]); ++n_edges; run_monitors(E); shapes.add(shape_hash(E));
					if (!E.overflow) { bool isnew; store.intern(g_postkey, g_slot[0].bytes, &isnew); if (isnew) { Parent p; memset(&p, 0, sizeof p); p.idx = -1; p.op = init[k]; parents.push(p); } }
				}
				for (size_t done = 0; done < store.count; ++done) {
					Abs pre; memcpy(g_slot[0].bytes, store.snap(done), INST_SIZE); G.cur = inst(0); read_abs(*inst(0), pre);
					for (size_t k = 0; k < ops.n; ++k) if (op_enabled(ops[k], pre)) {
						run(static_cast<long>(done), &pre, ops[k]); ++n_edges; run_monitors(E); shapes.add(shape_hash(E));
						if (!E.terminal && !E.overflow) { bool isnew; store.intern(g_postkey, g_slot[0].bytes, &isnew); if (isnew) { Parent p; memset(&p, 0, sizeof p); p.idx = static_cast<int32_t>(done); p.op = ops[k]; p.depth = static_cast<uint16_t>(parents[done].depth + 1); parents.push(p); } }
					}
				}
				nst += store.count;
			}
			g_strategy_mode = false;
			char path[600]; snprintf(path, sizeof path, "%s.w%d", opt.out ? opt.out : "/tmp/fsmx", w);
			write_worker_results(path);
			{ FILE* f = fopen(path, "a"); fprintf(f, "nstates %lu\n", nst); if (capped) fprintf(f, "capped 1\n"); fclose(f); }
			if (W > 1) { fflush(nullptr); _exit(0); }
		}
		if (W > 1) pids.push(pid);
	}
	nstates_total = 0;
	for (int w = 0; w < W; ++w) {
		int st = 0; if (W > 1) while (waitpid(pids[w], &st, 0) < 0 && errno == EINTR) {}
		char path[600]; snprintf(path, sizeof path, "%s.w%d", opt.out ? opt.out : "/tmp/fsmx", w);
		if (W > 1 && (!WIFEXITED(st) || WEXITSTATUS(st) != 0)) { M.count[C18] += 1; exhaustive = false; cap_reason = "worker crashed"; char line[256]; snprintf(line, sizeof line, "%d crash\tstrategy-worker\tworker %d terminated abnormally (status 0x%x)", C18, w, st); M.viol_lines.push(strdup(line)); }
		merge_file(path, M);
		FILE* f = fopen(path, "r"); if (f) { char* l = nullptr; size_t c = 0; unsigned long a; while (getline(&l, &c, f) > 0) { if (sscanf(l, "nstates %lu", &a) == 1) nstates_total += a; if (!strncmp(l, "capped", 6)) { exhaustive = false; cap_reason = "deadline reached"; } } free(l); fclose(f); }
		unlink(path);
	}
	unsigned long totalv = 0; for (int p = 1; p < PROP_MAX; ++p) totalv += M.count[p];
	M.count[0] = totalv;
}

// --------------------------------------------------------------------------- replay of one recorded history
static int replay_main() {
	// format: pf=..;mf=..;og=..;path=K.A.B.C:pos.alt,pos.alt|...
	unsigned pf = 0xAA, mf = 0, og = 0; const char* s = opt.replay; const char* p;
	if ((p = strstr(s, "pf="))) pf = static_cast<unsigned>(atoi(p + 3));
	if ((p = strstr(s, "mf="))) mf = static_cast<unsigned>(strtoul(p + 3, nullptr, 10));
	if ((p = strstr(s, "og="))) og = static_cast<unsigned>(strtoul(p + 3, nullptr, 10));
	if ((p = strstr(s, "ids="))) { p += 4; g_nids = 0; while (*p && *p != ';' && g_nids < 8) { g_ids[g_nids++] = atoi(p); while (*p && *p != '.' && *p != ';') ++p; if (*p == '.') ++p; } }
	if ((p = strstr(s, "st="))) { p += 3; for (int q = 0; q < 2 * N + 1 && *p && *p != ';'; ++q) { G.strat[q] = static_cast<uint8_t>(atoi(p)); while (*p && *p != '.' && *p != ';') ++p; if (*p == '.') ++p; } g_strategy_mode = true; }
	p = strstr(s, "path="); if (!p) die("replay string without path");
	p += 5;
	opt.prefill = static_cast<uint8_t>(pf); opt.mf = mf; opt.og = og;
	build_menus(); build_ops(); prepare_extras();
	{ G.mode = DM_QUIET; uint16_t none = 0; G.begin(0, &none, &none); construct(2, 0, false); uint8_t tmp[KEYMAX]; KEYLEN = make_key(*inst(2), tmp); }
	store.init(KEYLEN, INST_SIZE);
	g_replaying = true;
	long pre_idx = -1; Abs pre; int step = 0;
	unsigned long flagged_last = 0;
	while (*p) {
		Op op; int k, a, b, c, n = 0; if (sscanf(p, "%d.%d.%d.%d:%n", &k, &a, &b, &c, &n) != 4) die("bad replay step at '%s'", p);
		op = Op{static_cast<uint8_t>(k), static_cast<uint8_t>(a), static_cast<uint8_t>(b), static_cast<uint8_t>(c)}; p += n;
		DevVec dv; dv.n = 0;
		while (*p && *p != '|') { int ps, al, m = 0; if (sscanf(p, "%d.%d%n", &ps, &al, &m) != 2) die("bad decision at '%s'", p); dv.pos[dv.n] = static_cast<uint16_t>(ps); dv.alt[dv.n] = static_cast<uint16_t>(al); ++dv.n; p += m; if (*p == ',') ++p; }
		if (*p == '|') ++p;
		if (pre_idx >= 0) { memcpy(g_slot[0].bytes, store.snap(pre_idx), INST_SIZE); G.cur = inst(0); read_abs(*inst(0), pre); if (!op_enabled(op, pre)) printf("  (note: step %d is outside the in-contract alphabet for this state)\n", step); }
		run_edge(pre_idx, pre_idx >= 0 ? &pre : nullptr, op, dv);
		Text t; edge_text(t, E, true); printf("step %d: %s\n", step, t.c()); free(t.p);
		g_replay_flags = 0;
		run_monitors(E);
		if ((g_ghost_diverged || g_ghost_in.valid) && g_ghost_out.valid) { const bool was = g_ghost_in.valid; g_ghost_in = g_ghost_out; if (!was) printf("  (report bits kept by the machine differ from the warranted ones from here on; the warranted ones are carried along)\n"); } else g_ghost_in.valid = false;
		if (E.terminal) { flagged_last = g_replay_flags; break; }
		bool isnew; size_t idx = store.intern(g_postkey, g_slot[0].bytes, &isnew);
		companions(E);
		flagged_last = g_replay_flags;
		if (isnew) { Parent pr; memset(&pr, 0, sizeof pr); pr.idx = static_cast<int32_t>(pre_idx); pr.op = op; pr.ndev = static_cast<uint8_t>(dv.n); for (int i = 0; i < dv.n; ++i) { pr.pos[i] = dv.pos[i]; pr.alt[i] = dv.alt[i]; } parents.push(pr); }
		pre_idx = static_cast<long>(idx); ++step;
	}
	printf("replay: %lu monitor flag(s) on the final step\n", flagged_last);
	return flagged_last ? 1 : 0;
}

} // namespace vx

#include "vx_alloc.hpp"

int main(int argc, char** argv) {
	using namespace vx;
	for (int i = 1; i < argc; ++i) {
		const char* a = argv[i];
		auto val = [&](const char* name) -> const char* { size_t n = strlen(name); if (!strncmp(a, name, n) && a[n] == '=') return a + n + 1; return nullptr; };
		const char* v;
		if ((v = val("--props"))) { for (const char* p = v; *p; ) { if (*p == 'C') { int k = atoi(p + 1); if (k > 0 && k < PROP_MAX) opt.props |= 1u << k; } while (*p && *p != ',') ++p; if (*p == ',') ++p; } }
		else if ((v = val("--dev"))) opt.dev = atoi(v);
		else if ((v = val("--mf"))) opt.mf = static_cast<unsigned>(strtoul(v, nullptr, 0));
		else if ((v = val("--og"))) opt.og = static_cast<unsigned>(strtoul(v, nullptr, 0));
		else if ((v = val("--workers"))) opt.workers = atoi(v);
		else if ((v = val("--deadline"))) opt.deadline = atof(v);
		else if ((v = val("--prefill"))) opt.prefill = static_cast<uint8_t>(strtoul(v, nullptr, 0));
		else if ((v = val("--out"))) opt.out = v;
		else if ((v = val("--name"))) opt.name = v;
		else if ((v = val("--replay"))) opt.replay = v;
		else if ((v = val("--samples"))) opt.samples = atoi(v);
		else if ((v = val("--ids"))) { g_nids = 0; for (const char* p = v; *p && g_nids < 8; ) { int k = atoi(p); if (k >= 0 && k < N) g_ids[g_nids++] = k; while (*p && *p != ',') ++p; if (*p == ',') ++p; } if (!g_nids) die("--ids: no valid id"); }
		else if ((v = val("--copy-dev"))) opt.copy_dev = atoi(v);
		else if (!strcmp(a, "--copy-move")) g_comp.move = true;
		else if (!strcmp(a, "--no-exit-pending")) g_allow_exit_pending = false;
		else if ((v = val("--max-states"))) opt.max_states = strtoul(v, nullptr, 0);
		else if (!strcmp(a, "--strategies")) opt.strategies = true;
		else if (!strcmp(a, "--replica")) opt.companions_replica = true;
		else if (!strcmp(a, "--copy")) opt.companions_copy = true;
		else if (!strcmp(a, "--loadpairs")) opt.companions_load = true;
		else if (!strcmp(a, "--no-fresh")) opt.verify_fresh = false;
		else if (!strcmp(a, "--neutral")) want_neutral = 1;
		else if ((v = val("--neutral"))) want_neutral = static_cast<unsigned>(atoi(v)) | 1u;
		else if (!strcmp(a, "-v")) opt.verbose = true;
		else if (!strcmp(a, "--info")) { printf("N=%d head=%d manual=%d payload=%d L=%d cap=%d plans=%d log=%d hist=%d ser=%d sizeof(Inst)=%zu\n", N, VX_HEAD, VX_MANUAL, VX_PAYLOAD, VX_L, TASK_CAP, VX_PLANS, VX_LOG, VX_HIST, VX_SER, INST_SIZE); return 0; }
		else die("unknown argument %s", a);
	}
#ifdef VX_SAN
	__sanitizer_set_death_callback(on_sanitizer_death);
#else
	{ static char altstack[1 << 16]; stack_t ss; ss.ss_sp = altstack; ss.ss_size = sizeof altstack; ss.ss_flags = 0; sigaltstack(&ss, nullptr);
	  struct sigaction sa; memset(&sa, 0, sizeof sa); sa.sa_handler = on_crash; sa.sa_flags = SA_ONSTACK; const int sigs[] = {SIGSEGV, SIGBUS, SIGILL, SIGFPE}; for (int sg : sigs) sigaction(sg, &sa, nullptr); }
#endif
	{ struct sigaction sa; memset(&sa, 0, sizeof sa); sa.sa_handler = on_watchdog; sa.sa_flags = SA_RESTART; sigaction(SIGALRM, &sa, nullptr);
	  struct itimerval it; it.it_interval.tv_sec = 3; it.it_interval.tv_usec = 0; it.it_value = it.it_interval; setitimer(ITIMER_REAL, &it, nullptr); }
	if (getenv("VX_DUMP_COUNTS")) g_dump_counts = fopen(getenv("VX_DUMP_COUNTS"), "a");
	if (opt.replay) return replay_main();
	return explore_main();
}
