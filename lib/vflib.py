"""vflib -- build cache, engine runner, evidence and violation bookkeeping for the vf front end."""
import os, sys, json, time, hashlib, subprocess, re, shutil, threading

VERIF = os.path.dirname(os.path.dirname(os.path.abspath(__file__)))
REPO = os.environ.get('VERIF_REPO', '/repo')
BUILD = os.path.join(VERIF, 'build')
ENGINE = os.path.join(VERIF, 'engine')
# evidence/ describes runs against /repo itself; a run against another tree (VERIF_REPO=<scratch>, used to try seeded changes) writes elsewhere
EVID = os.path.join(VERIF, 'evidence') if REPO == '/repo' else os.path.join(VERIF, 'build', 'evidence_other_tree')
REPLAYS = os.path.join(VERIF, 'replays')
NCPU = os.cpu_count() or 4
SEED = int(os.environ.get('VERIF_SEED', '0') or 0)

class BuildFailed(Exception):
    pass

# --------------------------------------------------------------------------- menu / op-group flags (mirror fsmx_machine.hpp / fsmx_ops.hpp)
MF = dict(PHASE_REQ=1, GUARD_CANCEL=2, GUARD_REQ=4, PAYLOAD=8, PAYLOAD2=16, REPORT=32, REPORT_OTHER=64, PLAN_EDIT=128,
          LIFE_EDIT=256, GUARD_REPORT=512, INJ_DECIDE=1024, COMPOSITE=2048, LOG_TOGGLE=4096)
OG = dict(CORE=1, REACT=2, QUERY=4, PAYLOAD=8, MANUAL=16, REPLAY=32, SERIAL=64, COPY=128, DESTROY=256, LOG=512, PLAN=1024,
          REPORT=2048, PAYLOAD2=4096, PLAN_REMOVE=8192, IMM=16384, WITHDRAW=32768)
def mf(*names): return sum(MF[n] for n in names)
def og(*names): return sum(OG[n] for n in names)

# --------------------------------------------------------------------------- repository fingerprint
_fp_cache = {}
def repo_files():
    out = []
    for root in ('include', 'development'):
        for d, _, fs in os.walk(os.path.join(REPO, root)):
            for f in sorted(fs):
                out.append(os.path.join(d, f))
    return sorted(out)

def repo_fingerprint():
    if 'fp' in _fp_cache: return _fp_cache['fp']
    h = hashlib.sha1()
    for p in repo_files():
        h.update(p.encode()); h.update(open(p, 'rb').read())
    _fp_cache['fp'] = h.hexdigest()
    return _fp_cache['fp']

def engine_fingerprint(src=None):
    """hash of the harness source plus every engine header (a harness is rebuilt when it or a header it may include changes)"""
    k = 'efp' + str(src)
    if k in _fp_cache: return _fp_cache[k]
    h = hashlib.sha1()
    for f in sorted(os.listdir(ENGINE)):
        if f.endswith('.hpp'): h.update(open(os.path.join(ENGINE, f), 'rb').read())
    if src: h.update(open(src, 'rb').read())
    _fp_cache[k] = h.hexdigest()
    return _fp_cache[k]

# --------------------------------------------------------------------------- amalgamation (tools/join.py re-implemented in memory, same rules)
_COMMENT = re.compile(r"(?:\s*\/\/ COMMON)|(?:\s*\/\/ SPECIFIC)|(?:\s*\/\/\/\/)|(?:\s*\/\/--)|(?:\s*\/\/ -)")
def _merge(path, folder, last_empty, included, out):
    cur = folder + '/' + path.split('/')[-1]
    with open(cur, 'r', encoding='utf-8') as f:
        if not last_empty:
            out.append('\n'); last_empty = True
        for line in f:
            hi = line.find('#include "')
            if hi != -1:
                nxt = line[hi + 10:-2]
                if nxt not in included:
                    toks = nxt.split('/')
                    included.append(toks[-1])
                    if len(toks) == 1:
                        last_empty = _merge(nxt, folder, last_empty, included, out)
                    else:
                        name = toks.pop()
                        last_empty = _merge(name, folder + '/' + '/'.join(toks), last_empty, included, out)
            else:
                if line.startswith('\ufeff'): line = line[1:]
                if _COMMENT.match(line): continue
                if line == '\n':
                    if last_empty: continue
                    last_empty = True
                else:
                    last_empty = False
                out.append(line)
    return last_empty

def amalgamate():
    """returns the text tools/join.py would write to include/ffsm2/machine.hpp (without the BOM)"""
    out = []
    _merge('machine_dev.hpp', os.path.join(REPO, 'development/ffsm2'), True, [], out)
    return ''.join(out)

def shipped_header_text():
    t = open(os.path.join(REPO, 'include/ffsm2/machine.hpp'), 'r', encoding='utf-8-sig').read()
    return t

def headers_identical():
    if 'hid' not in _fp_cache:
        try:
            _fp_cache['hid'] = amalgamate() == shipped_header_text()
        except Exception as e:
            _fp_cache['hid'] = False
    return _fp_cache['hid']

def header_variants():
    """Checks run against the shipped single header; when the development sources do not amalgamate to exactly that file,
    every check is additionally run against development/ffsm2/machine_dev.hpp so that a one-sided edit is seen by the property it breaks."""
    return ['shipped'] if headers_identical() else ['shipped', 'dev']

# --------------------------------------------------------------------------- compiling harnesses
VARIANTS = {
    'plain':      dict(cxx='g++',     flags=['-O2', '-DVX_WRAP_MALLOC', '-Wl,--wrap=malloc,--wrap=calloc,--wrap=realloc,--wrap=free']),
    'plain-clang':dict(cxx='clang++', flags=['-O2', '-DVX_WRAP_MALLOC', '-Wl,--wrap=malloc,--wrap=calloc,--wrap=realloc,--wrap=free']),
    'asan-gcc':   dict(cxx='g++',     flags=['-O1', '-g', '-fsanitize=address,undefined', '-fno-sanitize-recover=all', '-fno-omit-frame-pointer', '-DVX_SAN']),
    'asan-gcc-O0':dict(cxx='g++',     flags=['-O0', '-g', '-fsanitize=address,undefined', '-fno-sanitize-recover=all', '-fno-omit-frame-pointer', '-DVX_SAN']),
    'plain-O0':   dict(cxx='g++',     flags=['-O0', '-DVX_WRAP_MALLOC', '-Wl,--wrap=malloc,--wrap=calloc,--wrap=realloc,--wrap=free']),
    'asan-clang': dict(cxx='clang++', flags=['-O1', '-g', '-fsanitize=address,undefined', '-fno-sanitize-recover=all', '-fno-omit-frame-pointer', '-DVX_SAN']),
    'msan':       dict(cxx='clang++', flags=['-O1', '-g', '-fsanitize=memory', '-fno-sanitize-recover=all', '-fno-omit-frame-pointer', '-DVX_MSAN', '-DVX_SAN']),
    # the same harness under the other language standards the library supports (default is c++17) and with the project's debug define
    'cxx11':      dict(cxx='g++',     std='c++11', flags=['-O2', '-DVX_WRAP_MALLOC', '-Wl,--wrap=malloc,--wrap=calloc,--wrap=realloc,--wrap=free']),
    'cxx14':      dict(cxx='g++',     std='c++14', flags=['-O2', '-DVX_WRAP_MALLOC', '-Wl,--wrap=malloc,--wrap=calloc,--wrap=realloc,--wrap=free']),
    'cxx20':      dict(cxx='g++',     std='c++20', flags=['-O2', '-DVX_WRAP_MALLOC', '-Wl,--wrap=malloc,--wrap=calloc,--wrap=realloc,--wrap=free']),
    'clang-cxx20':dict(cxx='clang++', std='c++20', flags=['-O2', '-DVX_WRAP_MALLOC', '-Wl,--wrap=malloc,--wrap=calloc,--wrap=realloc,--wrap=free']),
    'clang-cxx11':dict(cxx='clang++', std='c++11', flags=['-O2', '-DVX_WRAP_MALLOC', '-Wl,--wrap=malloc,--wrap=calloc,--wrap=realloc,--wrap=free']),
    'debug':      dict(cxx='g++',     flags=['-O1', '-D_DEBUG', '-DVX_WRAP_MALLOC', '-Wl,--wrap=malloc,--wrap=calloc,--wrap=realloc,--wrap=free']),
}
_build_lock = threading.Lock()

def compile_cmd(source, out, defs, variant='plain', header='shipped', std='c++17', extra=None, access=True):
    v = VARIANTS[variant]
    cmd = [v['cxx'], '-std=' + v.get('std', std)] + v['flags']
    if access: cmd.append('-fno-access-control')
    cmd += ['-I' + os.path.join(REPO, 'include'), '-I' + os.path.join(REPO, 'development'), '-I' + ENGINE]
    if header == 'dev': cmd.append('-DVX_DEV_HEADER')
    cmd += ['-D' + d for d in defs]
    if extra: cmd += extra
    cmd += [source, '-o', out]
    return cmd

def build(source, defs, variant='plain', header='shipped', std='c++17', extra=None, access=True, tag=''):
    """compile one harness translation unit against the CURRENT working tree of the repository; cached by content hash"""
    src = source if os.path.isabs(source) else os.path.join(ENGINE, source)
    key = hashlib.sha1(json.dumps([repo_fingerprint(), engine_fingerprint(src), src, sorted(defs), variant, header, std, extra, access, REPO]).encode()).hexdigest()[:20]
    os.makedirs(BUILD, exist_ok=True)
    out = os.path.join(BUILD, 'h_' + key)
    if os.path.exists(out): return out
    tmp = out + '.tmp%d' % os.getpid() + str(threading.get_ident())
    cmd = compile_cmd(src, tmp, defs, variant, header, std, extra, access)
    p = subprocess.run(cmd, stdout=subprocess.PIPE, stderr=subprocess.STDOUT, text=True)
    if p.returncode != 0:
        if os.path.exists(tmp): os.unlink(tmp)
        errs = [l for l in p.stdout.splitlines() if ' error: ' in l][:6]
        raise BuildFailed(' '.join(cmd) + '\n' + '\n'.join(errs) + '\n...\n' + p.stdout[-5000:])
    os.replace(tmp, out)
    return out

def try_build(*a, **kw):
    try:
        return build(*a, **kw), None
    except BuildFailed as e:
        return None, str(e)

def build_many(jobs):
    """jobs: list of (args, kwargs) for build(); returns list of (path|None, error|None)"""
    with ThreadPoolExecutor(max_workers=NCPU) as ex:
        futs = [ex.submit(try_build, *a, **kw) for a, kw in jobs]
        return [f.result() for f in futs]
from concurrent.futures import ThreadPoolExecutor

def prune_build_cache(keep_hours=48):
    try:
        now = time.time()
        for f in os.listdir(BUILD):
            p = os.path.join(BUILD, f)
            if f.startswith('h_') and now - os.path.getmtime(p) > keep_hours * 3600: os.unlink(p)
    except Exception:
        pass

# --------------------------------------------------------------------------- machine configurations for fsmx
FEAT = dict(PLANS='FFSM2_ENABLE_PLANS=', SER='FFSM2_ENABLE_SERIALIZATION=', HIST='FFSM2_ENABLE_TRANSITION_HISTORY=', LOG='FFSM2_ENABLE_LOG_INTERFACE=',
            VERBOSE='FFSM2_ENABLE_VERBOSE_DEBUG_LOG=', STRUCT='FFSM2_ENABLE_STRUCTURE_REPORT=', DBGTYPE='FFSM2_ENABLE_DEBUG_STATE_TYPE=', NOTYPEINDEX='FFSM2_DISABLE_TYPEINDEX=', ALL='FFSM2_ENABLE_ALL=')

def cfg(N=3, HEAD=1, MANUAL=0, PAYLOAD=0, L=2, CAP=0, CTX=1, feats=(), INJ=None, BARE=0, extra=(), SPARSE=None, PLANCB=3):
    d = ['VX_N=%d' % N, 'VX_HEAD=%d' % HEAD, 'VX_MANUAL=%d' % MANUAL, 'VX_PAYLOAD=%d' % PAYLOAD, 'VX_L=%d' % L, 'VX_CAP=%d' % CAP, 'VX_CTX=%d' % CTX, 'VX_BARE=%d' % BARE]
    if INJ:
        for k, v in INJ.items(): d.append('VX_INJ_%s=%d' % (k, v))
    if PLANCB != 3: d.append('VX_HEAD_PLANCB=%d' % PLANCB)
    if SPARSE: d += ['VX_SPARSE=%d' % SPARSE[0], 'VX_SPARSE_SHAPE=%d' % SPARSE[1]]
    d += [FEAT[f] for f in feats]
    d += list(extra)
    return d

# --------------------------------------------------------------------------- running the explorer
def run_fsmx(binary, name, props, dev, mf_, og_, workers=1, deadline=None, flags=(), prefill=None, out=None, samples=3, timeout=None):
    out = out or os.path.join(BUILD, 'r_%s_%d_%d.json' % (re.sub(r'[^A-Za-z0-9_.-]', '_', name), os.getpid(), threading.get_ident()))
    cmd = [binary, '--props=' + ','.join(props), '--dev=%d' % dev, '--mf=%d' % mf_, '--og=%d' % og_, '--workers=%d' % workers, '--name=' + name, '--out=' + out, '--samples=%d' % samples]
    if deadline: cmd.append('--deadline=%.0f' % deadline)
    if prefill is not None: cmd.append('--prefill=%d' % prefill)
    cmd += list(flags)
    env = dict(os.environ)
    env.setdefault('ASAN_OPTIONS', 'detect_leaks=0:abort_on_error=0:allocator_may_return_null=1')
    env.setdefault('UBSAN_OPTIONS', 'print_stacktrace=1:halt_on_error=1')
    env.setdefault('MSAN_OPTIONS', 'halt_on_error=1')
    t0 = time.time()
    tmo = timeout or ((deadline or 3000) * 2 + 300)
    proc = subprocess.Popen(cmd, stdout=subprocess.PIPE, stderr=subprocess.PIPE, text=True, env=env, start_new_session=True)
    try:
        so, se = proc.communicate(timeout=tmo); rc = proc.returncode
    except subprocess.TimeoutExpired:
        try: os.killpg(proc.pid, 9)
        except Exception: pass
        so, se = proc.communicate(); rc = -9; se = (se or '') + '\nTIMEOUT after %s s (explorer and its workers killed)' % tmo
    res = None
    if os.path.exists(out):
        try:
            res = json.load(open(out))
        except Exception:
            res = None
        os.unlink(out)
    return dict(rc=rc, stdout=so, stderr=(se if len(se) < 9000 else se[:4500] + '\n[...]\n' + se[-4500:]), result=res, cmd=cmd, wall=time.time() - t0, name=name)

# --------------------------------------------------------------------------- known findings
def load_findings():
    p = os.path.join(VERIF, 'known_findings.json')
    if not os.path.exists(p): return []
    return json.load(open(p)).get('findings', [])

def match_open_finding(prop, pred, text):
    for f in load_findings():
        if f.get('status') != 'open' or f.get('property') != prop: continue
        if 'pred' in f and not re.fullmatch(f['pred'], pred or ''): continue
        if 'text' in f and not re.search(f['text'], text or ''): continue
        return f
    return None

# --------------------------------------------------------------------------- collecting the verdict of a check
class Verdict:
    def __init__(self, prop, tier):
        self.prop = prop; self.tier = tier
        self.t0 = time.time()
        self.states = 0; self.transitions = 0; self.validated = 0; self.companions = 0
        self.samples = []; self.tables = []; self.violations = []; self.known = []
        self.exhaustive = True; self.caps = []; self.assumptions = []; self.extra = {}
        self.shapes = 0; self.errors = []
    def add_fsmx(self, run, cfgname, defs, runspec):
        r = run['result']
        if r is None and ('VX-HANG' in run['stderr'] or run['rc'] == 77):
            import re as _re
            m = _re.search(r'VX-INFLIGHT replay=(\S+)', run['stderr'])
            self.add_violation('call-did-not-return', '%s: an API call of the library did not return (stopped by the watchdog)' % run['name'], dict(kind='fsmx', config=cfgname, defs=defs, variant=runspec.get('variant', 'plain'), header=runspec.get('header', 'shipped'), replay=m.group(1) if m else '', props=['C%02d' % int(self.prop[1:])], flags=[]))
            return
        if r is None and ('VX-CRASH' in run['stderr'] or run['rc'] == 78):
            import re as _re
            m = _re.search(r'VX-INFLIGHT replay=(\S+)', run['stderr'])
            sig = _re.search(r'VX-CRASH: (.*)', run['stderr'])
            self.add_violation('crash', '%s: %s (plain build; wild pointer or illegal operation inside a library call)' % (run['name'], sig.group(1) if sig else 'fatal signal'), dict(kind='fsmx', config=cfgname, defs=defs, variant=runspec.get('variant', 'plain'), header=runspec.get('header', 'shipped'), replay=m.group(1) if m else '', props=['C%02d' % int(self.prop[1:])], flags=[f for f in runspec.get('flags', []) if f in ('--replica', '--copy', '--copy-move')]))
            return
        if r is None:
            # the explorer process itself died (sanitizer abort before workers were started, crash, timeout)
            self.errors.append('explorer run %s produced no result (rc=%s): %s' % (run['name'], run['rc'], run['stderr'][-1500:]))
            return
        self.states += r['states']; self.transitions += r['transitions']; self.validated += r['validated']; self.companions += r.get('companion_runs', 0)
        self.shapes += r.get('distinct_trace_shapes', 0)
        row = {k: r.get(k) for k in ('config', 'states', 'transitions', 'validated', 'companion_runs', 'max_depth', 'dev_bound', 'ops', 'exhaustive', 'capped', 'distinct_trace_shapes', 'wall_s', 'prefill', 'rederived', 'neutral_tuples')}
        row['variant'] = runspec.get('variant', 'plain'); row['header'] = runspec.get('header', 'shipped')
        self.tables.append(row)
        if not r['exhaustive']:
            self.exhaustive = False; self.caps.append('%s: %s' % (r['config'], r['capped']))
        for s in r.get('samples', [])[:2]:
            self.samples.append({'config': r['config'], 'edge': s})
        mine = 'C%02d' % int(self.prop[1:])
        nviol = r['violations'].get(mine, 0) + (r['violations'].get('C18', 0) if any(w['pred'] == 'crash' for w in r['witnesses']) and mine != 'C18' else 0)
        if nviol:
            seen = set()
            for w in r['witnesses']:
                if (w['property'] != mine and w['pred'] != 'crash') or w['pred'] in seen: continue   # a call that crashes or never returns is reported by whichever check was exploring it
                seen.add(w['pred'])
                rd = dict(kind='fsmx', config=cfgname, defs=defs, variant=runspec.get('variant', 'plain'), header=runspec.get('header', 'shipped'), replay=w['replay'], props=[mine], flags=[f for f in runspec.get('flags', []) if f in ('--replica', '--copy', '--copy-move')])
                text = w['text']
                if w['pred'] == 'crash':
                    rep = [l.strip() for l in run['stderr'].splitlines() if 'runtime error' in l or 'ERROR: ' in l or 'WARNING: MemorySanitizer' in l][:2]
                    rd['stderr'] = run['stderr'][:6000]; text = '%s build of %s: %s || %s' % (runspec.get('variant', 'plain'), cfgname, ' | '.join(rep)[:600], text)
                self.add_violation(w['pred'], text, rd, count=nviol)
            if not seen:
                self.add_violation('unattributed', '%d violations without witness' % nviol, dict(kind='fsmx', config=cfgname), count=nviol)
    def add_violation(self, pred, text, replay, count=1):
        f = match_open_finding(self.prop, pred, text)
        if f: self.known.append((f, pred, text)); return
        self.violations.append(dict(pred=pred, text=text, replay=replay, count=count))
    def finish(self, level='model_checking', rule=None):
        os.makedirs(EVID, exist_ok=True); os.makedirs(REPLAYS, exist_ok=True)
        lines = []
        for f, pred, text in self.known:
            lines.append('KNOWN-FINDING: property=%s %s' % (self.prop, f.get('what', pred)))
        paths = []
        for v in self.violations[:12]:
            h = hashlib.sha1((v['pred'] + json.dumps(v['replay'], sort_keys=True)).encode()).hexdigest()[:10]
            path = os.path.join(REPLAYS, '%s-%s-%s.json' % (self.prop, re.sub(r'[^A-Za-z0-9]+', '_', v['pred'])[:40], h))
            json.dump(dict(property=self.prop, predicate=v['pred'], what=v['text'], count=v['count'], **v['replay']), open(path, 'w'), indent=1)
            paths.append(path)
            lines.append('VIOLATION property=%s replay=%s' % (self.prop, path))
            lines.append('  ' + v['text'][:1200])
        cov = dict(states=max(self.states, 0), transitions=max(self.transitions, 0), traces_validated_against_impl=self.validated,
                   samples=self.samples[:6] or [{'note': 'no callback-bearing edge sampled'}], exhaustive=self.exhaustive and not self.errors,
                   companion_instance_runs=self.companions, distinct_trace_shapes=self.shapes, runs=self.tables, caps_hit=self.caps)
        cov.update(self.extra)
        if rule: cov['rule'] = rule
        ev = dict(property_id=self.prop, tier=self.tier, seed=SEED, level=level, coverage=cov, assumptions=self.assumptions,
                  wall_s=round(time.time() - self.t0, 2), violations=len(self.violations), known_findings=[f.get('id') for f, _, _ in self.known], machinery_errors=self.errors)
        json.dump(ev, open(os.path.join(EVID, self.prop + '.json'), 'w'), indent=1)
        # evidence/<id>.json always describes the latest run; a copy per tier is kept next to it so that a quick run does not erase the
        # record of the last thorough one
        os.makedirs(os.path.join(EVID, self.tier), exist_ok=True)
        json.dump(ev, open(os.path.join(EVID, self.tier, self.prop + '.json'), 'w'), indent=1)
        for l in lines: print(l)
        if self.errors:
            for e in self.errors: print('vf: machinery error: ' + e[:3000])
        print('%s %s: states=%d transitions=%d validated=%d companions=%d exhaustive=%s violations=%d wall=%.1fs' % (self.prop, self.tier, self.states, self.transitions, self.validated, self.companions, cov['exhaustive'], len(self.violations), time.time() - self.t0))
        if self.violations: return 1
        if self.errors: return 2
        return 0
