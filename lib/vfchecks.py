"""vfchecks -- the per-property decision procedures (DESIGN.md section 5) expressed as explorer runs."""
import os, sys, json, time, subprocess, re, hashlib, glob, threading
from vflib import *

# --------------------------------------------------------------------------- machine configurations (DESIGN.md 5)
CONFIGS = {
    # transitions / guards
    'T1':   cfg(N=3, HEAD=1, L=2, CTX=1, feats=('HIST', 'LOG')),
    'T1n':  cfg(N=3, HEAD=1, L=2, CTX=1, feats=('HIST',)),
    'T2':   cfg(N=2, HEAD=0, MANUAL=1, PAYLOAD=4, L=3, CTX=2, feats=('HIST', 'SER', 'LOG')),
    'T2a':  cfg(N=2, HEAD=1, MANUAL=0, PAYLOAD=0, L=2, CTX=0, feats=('SER',)),
    'T3':   cfg(N=1, HEAD=1, L=1, CTX=0),
    'T3h':  cfg(N=1, HEAD=0, L=2, CTX=0, feats=('HIST',)),
    'T4':   cfg(N=4, HEAD=0, L=2, CTX=3, feats=('HIST',)),
    'T5':   cfg(N=3, HEAD=1, MANUAL=1, PAYLOAD=16, L=2, CTX=1, feats=('HIST', 'SER')),
    'T6':   cfg(N=2, HEAD=1, PAYLOAD=32, L=4, CTX=2, feats=('HIST',)),
    'T8':   cfg(N=3, HEAD=1, L=3, CTX=1, feats=('HIST',)),
    'T9':   cfg(N=2, HEAD=1, PAYLOAD=1, L=2, CTX=3, feats=('HIST',)),
    'T9a':  cfg(N=2, HEAD=0, PAYLOAD=3, L=2, CTX=0, feats=('HIST',)),
    'T9c':  cfg(N=2, HEAD=1, PAYLOAD=300, L=2, CTX=0, feats=('HIST',)),
    'P7c':  cfg(N=2, HEAD=0, PAYLOAD=300, CAP=1, L=1, CTX=0, feats=('PLANS',)),
    'T9b':  cfg(N=2, HEAD=1, PAYLOAD=8, L=2, CTX=0, feats=('HIST', 'SER')),
    'P7a':  cfg(N=2, HEAD=1, PAYLOAD=7, CAP=2, L=1, CTX=0, feats=('PLANS',)),
    'P7b':  cfg(N=2, HEAD=0, PAYLOAD=24, CAP=2, L=1, CTX=0, feats=('PLANS',)),
    # plans
    'P1':   cfg(N=3, HEAD=1, CAP=2, L=2, CTX=1, feats=('PLANS', 'LOG')),
    'P2':   cfg(N=2, HEAD=1, MANUAL=1, PAYLOAD=4, CAP=2, L=2, CTX=1, feats=('PLANS', 'LOG', 'HIST')),
    'P3':   cfg(N=2, HEAD=0, CAP=1, L=1, CTX=0, feats=('PLANS',)),
    'P4':   cfg(N=2, HEAD=0, PAYLOAD=16, CAP=0, L=2, CTX=2, feats=('PLANS', 'LOG')),
    'P5':   cfg(N=2, HEAD=1, CAP=2, L=2, CTX=1, feats=('PLANS', 'LOG')),
    'P5h':  cfg(N=2, HEAD=1, CAP=2, L=2, CTX=1, feats=('PLANS', 'LOG', 'HIST', 'SER')),
    'P6':   cfg(N=2, HEAD=1, CAP=3, L=1, CTX=0, feats=('PLANS',)),
    'P7':   cfg(N=2, HEAD=1, PAYLOAD=16, CAP=2, L=2, CTX=1, feats=('PLANS', 'HIST')),
    'P7h':  cfg(N=2, HEAD=1, PAYLOAD=16, CAP=2, L=2, CTX=1, feats=('PLANS', 'HIST', 'SER')),
    'P8c':  cfg(N=2, HEAD=1, CAP=4, L=1, CTX=0, feats=('PLANS',)),                       # task capacity larger than the state count
    'P8d':  cfg(N=3, HEAD=0, CAP=5, L=1, CTX=0, feats=('PLANS',)),
    'P5f':  cfg(N=2, HEAD=1, CAP=2, L=2, CTX=1, feats=('PLANS', 'LOG'), PLANCB=2),          # the head defines planFailed only / planSucceeded only / neither
    'P5s':  cfg(N=2, HEAD=1, CAP=2, L=2, CTX=1, feats=('PLANS', 'LOG'), PLANCB=1),
    'P5n':  cfg(N=2, HEAD=1, CAP=2, L=2, CTX=1, feats=('PLANS', 'LOG'), PLANCB=0),
    'T1r':  cfg(N=3, HEAD=1, L=2, CTX=4, feats=('HIST', 'LOG')),                           # value context handed to the constructor as an rvalue
    # many states (ids beyond one storage unit of the bit arrays); explored over a subset of the state ids
    'N8':   cfg(N=8, HEAD=1, L=2, CTX=1, feats=('HIST',)),
    'N8p':  cfg(N=8, HEAD=1, CAP=2, L=1, CTX=0, feats=('PLANS', 'LOG')),
    'N5':   cfg(N=5, HEAD=0, L=2, CTX=0, feats=('HIST',)),
    'N7p':  cfg(N=7, HEAD=0, CAP=2, L=1, CTX=0, feats=('PLANS',)),
    # everything enabled at once
    'A1':   cfg(N=2, HEAD=1, MANUAL=1, PAYLOAD=4, CAP=2, L=2, CTX=2, feats=('PLANS', 'SER', 'HIST', 'LOG')),
    'A2':   cfg(N=2, HEAD=0, MANUAL=0, PAYLOAD=1, CAP=1, L=1, CTX=3, feats=('PLANS', 'SER', 'HIST', 'VERBOSE', 'STRUCT', 'DBGTYPE', 'NOTYPEINDEX')),
    # injections
    'I1':   cfg(N=3, HEAD=1, L=2, CTX=1, INJ=dict(R=2, S0=1, S1=3, S2=0)),
    'I2':   cfg(N=2, HEAD=0, L=2, CTX=0, INJ=dict(S0=3, S1=2)),
    'I3':   cfg(N=1, HEAD=1, L=1, CTX=0, INJ=dict(R=3, S0=3)),
    'I4':   cfg(N=2, HEAD=1, CAP=2, L=2, CTX=1, feats=('PLANS',), INJ=dict(R=1, S0=2, S1=1)),
    # a state with exactly one injection that defines no callback of its own (I5: state 1) / only enter, update, exit (I6: the initial state)
    'I5':   cfg(N=3, HEAD=1, L=2, CTX=1, INJ=dict(R=1, S0=0, S1=1, S2=2), SPARSE=(1, 1)),
    'I6':   cfg(N=2, HEAD=0, L=2, CTX=0, INJ=dict(S0=1, S1=1), SPARSE=(0, 2)),
    'I9':   cfg(N=2, HEAD=1, L=2, CTX=0, INJ=dict(R=4, S0=4, S1=1)),                                          # deep injection chains
    'I10':  cfg(N=2, HEAD=0, L=2, CTX=0, INJ=dict(S0=5, S1=0)),
    'I7':   cfg(N=2, HEAD=1, L=2, CTX=0, INJ=dict(R=1, S0=1, S1=2), extra=('VX_INJ_VIRTUAL=1',)),       # polymorphic injections (virtual callbacks)
    'I8':   cfg(N=3, HEAD=0, L=2, CTX=0, INJ=dict(S0=1, S1=1, S2=3), SPARSE=(1, 2), extra=('VX_INJ_VIRTUAL=1',)),
    # logging
    'G0':   cfg(N=3, HEAD=1, L=2, CTX=1, BARE=1),
    'G1':   cfg(N=3, HEAD=1, L=2, CTX=1, BARE=1, feats=('LOG',)),
    'G2':   cfg(N=3, HEAD=1, L=2, CTX=1, BARE=1, feats=('VERBOSE',)),
    # logging families with injections (one sparse state) and with payload + plans
    'GI0':  cfg(N=2, HEAD=1, L=2, CTX=1, INJ=dict(R=1, S0=2, S1=1), SPARSE=(1, 2)),
    'GI1':  cfg(N=2, HEAD=1, L=2, CTX=1, INJ=dict(R=1, S0=2, S1=1), SPARSE=(1, 2), feats=('LOG',)),
    'GI2':  cfg(N=2, HEAD=1, L=2, CTX=1, INJ=dict(R=1, S0=2, S1=1), SPARSE=(1, 2), feats=('VERBOSE',)),
    'GQ0':  cfg(N=2, HEAD=1, PAYLOAD=4, CAP=2, L=2, CTX=1, feats=('PLANS',)),
    'GQ1':  cfg(N=2, HEAD=1, PAYLOAD=4, CAP=2, L=2, CTX=1, feats=('PLANS', 'LOG')),
    'GQ2':  cfg(N=2, HEAD=1, PAYLOAD=4, CAP=2, L=2, CTX=1, feats=('PLANS', 'VERBOSE')),
    'GP0':  cfg(N=2, HEAD=1, CAP=2, L=2, CTX=1, feats=('PLANS',)),
    'GP1':  cfg(N=2, HEAD=1, CAP=2, L=2, CTX=1, feats=('PLANS', 'LOG')),
    'GP2':  cfg(N=2, HEAD=1, CAP=2, L=2, CTX=1, feats=('PLANS', 'VERBOSE')),
}
# the same machines driven through the type-parameterised overloads (changeTo<T>(), changeWith<T>(), succeed<T>(), fail<T>(),
# plan.change<A, B>(), isActive<T>(), ...): suffix t = full forms, u = the half forms of the plan (change<A>(id))
for _b in ('T1', 'T2', 'T5', 'P3', 'P5', 'P7', 'G1', 'GP1', 'N8', 'N8p', 'T2a'):
    CONFIGS[_b + 't'] = CONFIGS[_b] + ['VX_TFORM=1']
# the same machines with callbacks that reach back into their machine (const query, save) while a call is in progress
for _b in ('T1', 'T2', 'P5h', 'I1', 'T2a', 'T5'):
    CONFIGS[_b + 'q'] = CONFIGS[_b] + ['VX_REENTRANT=1']
for _b in ('P5', 'P7'):
    CONFIGS[_b + 'u'] = CONFIGS[_b] + ['VX_TFORM=2']
for _l in (1, 2, 3, 4, 5, 255):
    CONFIGS['S%d' % _l] = cfg(N=2, HEAD=1, L=_l, CTX=0)
    CONFIGS['S3_%d' % _l] = cfg(N=3, HEAD=0, L=_l, CTX=0)
    CONFIGS['SH3_%d' % _l] = cfg(N=3, HEAD=1, L=_l, CTX=0)
    CONFIGS['SM%d' % _l] = cfg(N=2, HEAD=0, MANUAL=1, L=_l, CTX=0)                       # stationary strategies on a manually activated machine (enter(), exit())
    CONFIGS['SP%d' % _l] = cfg(N=2, HEAD=0, PAYLOAD=4, L=_l, CTX=0)                      # ... and on a machine with payloads (immediateChangeWith)

M_T  = mf('PHASE_REQ', 'GUARD_CANCEL', 'GUARD_REQ')                    # transitions: full menus
M_G  = mf('GUARD_CANCEL', 'GUARD_REQ')                                 # guard-only menus
M_TP = M_T | mf('PAYLOAD')
M_TP2 = M_T | mf('PAYLOAD', 'PAYLOAD2')
M_P  = mf('PHASE_REQ', 'GUARD_CANCEL', 'REPORT', 'REPORT_OTHER', 'PLAN_EDIT', 'LIFE_EDIT')   # plans
M_P0 = mf('PHASE_REQ', 'GUARD_CANCEL', 'REPORT', 'PLAN_EDIT')
M_PG = M_P | mf('GUARD_REQ', 'GUARD_REPORT')
M_TC = M_T | mf('COMPOSITE')          # + several actions per callback invocation (request twice, request then cancel, fail then succeed, ...)
M_GC = M_G | mf('COMPOSITE')
M_PC = M_P0 | mf('COMPOSITE')
O_T  = og('CORE', 'REACT', 'QUERY')
O_TALL = O_T | og('REPLAY', 'COPY', 'DESTROY', 'LOG', 'MANUAL', 'SERIAL', 'PAYLOAD')      # groups unavailable in a configuration are compiled out
O_P  = og('CORE', 'PLAN', 'REPORT', 'LOG')
O_PALL = O_P | og('REACT', 'PLAN_REMOVE', 'COPY', 'DESTROY', 'MANUAL', 'PAYLOAD', 'REPLAY', 'SERIAL')

def S(cfgname, dev, mf_, og_, workers=NCPU, flags=(), variant='plain', prefills=None, props=None, share=1.0):
    return dict(cfg=cfgname, dev=dev, mf=mf_, og=og_, workers=workers, flags=list(flags), variant=variant, prefills=prefills, props=props, share=share)

W = NCPU

SPECS = {
 'C01': dict(
    quick=[S('I1', 2, M_T, O_T), S('I2', 2, M_T, O_T), S('I9', 1, M_T, O_T), S('I4', 1, M_P0, O_P), S('T1r', 1, M_T, O_TALL), S('T1', 1, M_T, O_T, flags=['--copy', '--copy-move'], props=['C01', 'C17']), S('P5h', 1, M_P0, O_PALL), S('T2t', 2, M_TP, O_TALL), S('P3t', 2, M_P, O_PALL), S('N8', 2, M_T, O_TALL, flags=['--ids=0,3,4,7']), S('N5', 1, M_T, O_TALL), S('N8p', 1, M_P, O_PALL, flags=['--ids=0,7']), S('T1', 2, M_T, O_TALL), S('T2', 2, M_TP, O_TALL), S('T3', 3, M_T, O_TALL), S('T3h', 3, M_T, O_TALL), S('P3', 2, M_P, O_PALL), S('T4', 1, M_T, O_TALL), S('A1', 0, mf('PHASE_REQ', 'GUARD_CANCEL', 'REPORT', 'PLAN_EDIT', 'PAYLOAD'), og('CORE', 'PLAN', 'REPORT', 'MANUAL', 'SERIAL', 'REPLAY', 'COPY', 'DESTROY', 'PAYLOAD', 'LOG')), S('A2', 1, mf('PHASE_REQ', 'GUARD_CANCEL', 'REPORT', 'PLAN_EDIT', 'PAYLOAD'), og('CORE', 'PLAN', 'REPORT', 'MANUAL', 'SERIAL', 'REPLAY', 'COPY', 'DESTROY', 'PAYLOAD', 'LOG'))],
    thorough=[S('A1', 1, mf('PHASE_REQ', 'GUARD_CANCEL', 'REPORT', 'PLAN_EDIT', 'PAYLOAD'), og('CORE', 'PLAN', 'REPORT', 'MANUAL', 'SERIAL', 'REPLAY', 'COPY', 'DESTROY', 'PAYLOAD', 'LOG'), W, share=3), S('A2', 2, mf('PHASE_REQ', 'GUARD_CANCEL', 'REPORT', 'PLAN_EDIT', 'PAYLOAD'), og('CORE', 'PLAN', 'REPORT', 'MANUAL', 'SERIAL', 'REPLAY', 'COPY', 'DESTROY', 'PAYLOAD', 'LOG'), W), S('T1', 3, M_T, O_TALL, W), S('T2', 3, M_TP, O_TALL, W), S('T3', 4, M_T, O_TALL), S('T3h', 4, M_T, O_TALL), S('T4', 2, M_T, O_TALL, W), S('T5', 2, M_TP, O_TALL, W), S('T6', 3, M_TP, O_TALL, W),
              S('P3', 3, M_P, O_PALL, W), S('P5', 2, M_P, O_PALL, W), S('P2', 1, M_P | mf('PAYLOAD'), O_PALL, W)]),
 'C02': dict(
    quick=[S('T1', 2, M_G, og('CORE', 'WITHDRAW')), S('T2', 1, M_TP, og('CORE', 'PAYLOAD', 'PAYLOAD2', 'MANUAL')), S('T1', 1, M_T, O_T, flags=['--copy', '--copy-move']), S('S255', 0, M_G, og('CORE'), W, ['--strategies']), S('S1', 0, M_G, og('CORE'), W, ['--strategies']), S('P5', 2, M_P0, O_P), S('P5f', 1, M_P0, O_P), S('T1t', 2, M_T, O_T), S('T2t', 2, M_TP, O_T | og('PAYLOAD', 'MANUAL')), S('P5t', 1, M_P, O_P), S('N8', 2, M_T, O_T, flags=['--ids=0,3,4,7']), S('N5', 2, M_T, og('CORE')), S('N8p', 1, M_P0, O_P, flags=['--ids=0,7']), S('T1', 2, M_T, O_T), S('T1', 2, M_TC, og('CORE')), S('T2', 2, M_TP, O_T | og('PAYLOAD', 'MANUAL')), S('T3', 3, M_TC, O_T), S('P5', 1, M_P, O_P), S('P5', 1, M_PC, O_P), S('T4', 1, M_T, O_T), S('I2', 2, M_T | mf('INJ_DECIDE'), og('CORE'))],
    thorough=[S('I1', 2, M_T | mf('INJ_DECIDE'), og('CORE'), W), S('T1', 3, M_TC, og('CORE'), W), S('P5', 2, M_PC, O_P, W), S('T1', 3, M_T, O_T, W), S('T8', 3, M_T, O_T, W), S('T2', 3, M_TP2, O_T | og('PAYLOAD', 'PAYLOAD2', 'MANUAL'), W), S('T3', 4, M_T, O_T), S('T4', 2, M_T, O_T, W), S('T6', 3, M_TP, O_T | og('PAYLOAD'), W), S('P5', 2, M_PG, O_P, W), S('P1', 1, M_P0, O_P, W)]),
 'C03': dict(
    quick=[S('I9', 2, M_G | mf('INJ_DECIDE'), og('CORE')), S('I10', 2, M_G | mf('INJ_DECIDE'), og('CORE')), S('T2', 2, M_G | mf('PAYLOAD'), og('CORE', 'PAYLOAD', 'PAYLOAD2', 'MANUAL')), S('P5', 2, mf('GUARD_CANCEL', 'GUARD_REQ', 'GUARD_REPORT', 'REPORT'), og('CORE', 'PLAN', 'REPORT')), S('I4', 2, mf('GUARD_CANCEL', 'GUARD_REPORT', 'INJ_DECIDE'), og('CORE', 'REPORT')), S('T1t', 3, M_G, O_T), S('T2t', 2, M_G | mf('PAYLOAD'), O_T | og('PAYLOAD', 'MANUAL')), S('N8', 3, M_G, og('CORE'), flags=['--ids=0,3,4,7']), S('N5', 2, M_G, og('CORE')), S('T1', 3, M_G, O_T), S('T2', 3, M_G | mf('PAYLOAD'), O_T | og('PAYLOAD', 'MANUAL', 'REPLAY', 'SERIAL')), S('T3', 3, M_G, O_T), S('T8', 3, M_G, og('CORE')), S('T1', 2, M_T, O_T | og('REPLAY')), S('I1', 2, M_G | mf('INJ_DECIDE'), og('CORE')), S('I2', 2, M_G | mf('INJ_DECIDE'), og('CORE')), S('T1', 2, M_GC, og('CORE')), S('T3', 3, M_GC, og('CORE'))],
    thorough=[S('T1', 3, M_GC, og('CORE'), W), S('T8', 3, M_GC, og('CORE'), W), S('T1', 4, M_G, O_T, W), S('T8', 4, M_G, og('CORE'), W), S('T2', 4, M_G | mf('PAYLOAD'), O_T | og('PAYLOAD', 'MANUAL', 'REPLAY', 'SERIAL'), W), S('T3', 4, M_G, O_T), S('T4', 3, M_G, og('CORE'), W), S('T1', 3, M_T, O_T | og('REPLAY'), W), S('T5', 3, M_G | mf('PAYLOAD'), O_T | og('PAYLOAD', 'MANUAL', 'REPLAY', 'SERIAL'), W), S('I1', 3, M_G | mf('INJ_DECIDE'), og('CORE'), W), S('I2', 3, M_G | mf('INJ_DECIDE'), og('CORE'), W)]),
 'C04': dict(
    quick=[S('S3_1', 0, M_G, og('CORE'), W, ['--strategies']), S('S3_2', 0, M_G, og('CORE'), W, ['--strategies']), S('S3_3', 0, M_G, og('CORE'), W, ['--strategies']), S('I2', 3, M_G | mf('INJ_DECIDE'), og('CORE')), S('I1', 2, M_G | mf('INJ_DECIDE'), og('CORE')), S('SM1', 0, M_G, og('CORE', 'MANUAL'), W, ['--strategies']), S('SM2', 0, M_G, og('CORE', 'MANUAL'), W, ['--strategies']), S('SM3', 0, M_G, og('CORE', 'MANUAL'), W, ['--strategies']), S('SP2', 0, M_G | mf('PAYLOAD', 'PAYLOAD2'), og('CORE', 'PAYLOAD', 'IMM'), W, ['--strategies']), S('SP1', 0, M_G | mf('PAYLOAD', 'PAYLOAD2'), og('CORE', 'PAYLOAD', 'IMM'), W, ['--strategies']), S('T2', 2, M_G | mf('PAYLOAD'), og('CORE', 'MANUAL', 'PAYLOAD')), S('S1', 0, M_G, og('CORE'), W, ['--strategies']), S('S2', 0, M_G, og('CORE'), W, ['--strategies']), S('S3', 0, M_G, og('CORE'), W, ['--strategies']), S('S5', 0, M_G, og('CORE'), W, ['--strategies']), S('S255', 0, M_G, og('CORE'), W, ['--strategies']),
           S('T1', 3, M_G, og('CORE')), S('T3', 3, M_T, og('CORE'))],
    thorough=[S('S%d' % l, 0, M_G, og('CORE'), W, ['--strategies']) for l in (1, 2, 3, 4, 5, 255)] + [S('S3_%d' % l, 0, mf('GUARD_CANCEL', 'GUARD_REQ'), og('CORE'), W, ['--strategies'], share=3.0) for l in (1, 2, 3, 4, 5, 255)] + [S('SH3_%d' % l, 0, mf('GUARD_CANCEL', 'GUARD_REQ'), og('CORE'), W, ['--strategies'], share=4.0) for l in (1, 2, 3)] + [S('SM%d' % l, 0, M_G, og('CORE', 'MANUAL'), W, ['--strategies']) for l in (1, 2, 3, 4, 5, 255)] + [S('SP%d' % l, 0, M_G, og('CORE', 'PAYLOAD', 'IMM'), W, ['--strategies']) for l in (1, 2, 3, 255)] +
             [S('T1', 4, M_G, og('CORE'), W), S('T8', 4, M_G, og('CORE'), W), S('T2', 3, M_G, og('CORE', 'MANUAL'), W), S('T1', 3, M_T, O_T, W)]),
 'C05': dict(
    quick=[S('T1q', 2, M_T, O_T), S('T2q', 1, M_TP, O_T | og('MANUAL', 'PAYLOAD')), S('I1q', 1, M_T, O_T), S('I9', 1, M_T, O_T), S('I5', 1, M_T, og('CORE', 'REACT', 'QUERY')), S('I6', 1, M_T, og('CORE', 'REACT', 'QUERY')), S('I8', 1, M_T, og('CORE', 'REACT', 'QUERY')), S('I1', 1, M_T, O_T), S('I2', 2, M_T, O_T), S('I4', 1, M_P0, O_P | og('REACT')), S('T1t', 2, M_T, O_T), S('P5t', 1, M_P0, O_P | og('REACT', 'QUERY')), S('N8', 1, M_T, O_T, flags=['--ids=0,3,4,7']), S('N5', 1, M_T, O_T), S('N7p', 1, M_P0, O_P | og('REACT', 'QUERY'), flags=['--ids=0,3,6']), S('T1', 2, M_T, O_T), S('T2', 2, M_TP, O_T | og('MANUAL')), S('T3', 3, M_T, O_T), S('P3', 2, M_P, O_P | og('REACT', 'QUERY')), S('P5', 1, M_P, O_P | og('REACT', 'QUERY')), S('T4', 1, M_T, O_T)],
    thorough=[S('T1', 3, M_T, O_T, W), S('T2', 3, M_TP, O_T | og('MANUAL'), W), S('T3', 4, M_T, O_T), S('T4', 2, M_T, O_T, W), S('P3', 3, M_P, O_P | og('REACT', 'QUERY'), W), S('P5', 2, M_P, O_P | og('REACT', 'QUERY'), W), S('I1', 2, M_T, O_T, W)]),
 'C06': dict(
    quick=[S('T1', 2, M_G, og('CORE', 'WITHDRAW')), S('T6', 2, M_TP | mf('COMPOSITE'), og('CORE', 'PAYLOAD')), S('T1', 1, M_T, O_T, flags=['--copy', '--copy-move']), S('P5', 2, M_P0 | mf('REPORT_OTHER'), og('CORE', 'REPORT')), S('T1r', 2, M_T, O_T), S('P5h', 1, M_P0, O_P | og('SERIAL', 'QUERY')), S('T1t', 2, M_T, O_T | og('REPLAY')), S('T2t', 2, M_TP, O_T | og('PAYLOAD', 'MANUAL')), S('P5t', 1, M_PG, O_P | og('REACT', 'QUERY')), S('N8', 2, M_T, O_T | og('REPLAY'), flags=['--ids=0,3,4,7']), S('N5', 1, M_T, O_T), S('T1', 2, M_T, O_T | og('REPLAY')), S('T2', 2, M_TP, O_T | og('PAYLOAD', 'MANUAL', 'REPLAY', 'SERIAL')), S('T9', 2, M_TP, O_T | og('PAYLOAD')), S('T3', 3, M_T, O_T), S('P5', 1, M_PG, O_P | og('REACT', 'QUERY')), S('T4', 1, M_T, O_T), S('I1', 1, M_T | mf('INJ_DECIDE'), O_T), S('T1', 2, M_TC, og('CORE')), S('A2', 1, mf('PHASE_REQ', 'GUARD_CANCEL', 'REPORT', 'PLAN_EDIT', 'PAYLOAD'), og('CORE', 'PLAN', 'REPORT', 'MANUAL', 'SERIAL', 'REPLAY', 'COPY', 'DESTROY', 'PAYLOAD', 'LOG')), S('A1', 0, mf('PHASE_REQ', 'GUARD_CANCEL', 'REPORT', 'PLAN_EDIT', 'PAYLOAD'), og('CORE', 'PLAN', 'REPORT', 'MANUAL', 'SERIAL', 'REPLAY', 'COPY', 'DESTROY', 'PAYLOAD', 'LOG'))],
    thorough=[S('T1', 3, M_T, O_T | og('REPLAY'), W), S('T2', 3, M_TP, O_T | og('PAYLOAD', 'MANUAL', 'REPLAY', 'SERIAL'), W), S('T9', 3, M_TP, O_T | og('PAYLOAD'), W), S('T3', 4, M_T, O_T), S('T4', 2, M_T, O_T, W), S('T5', 2, M_TP, O_TALL, W), S('P5', 2, M_PG, O_P | og('REACT', 'QUERY'), W), S('I1', 2, M_T | mf('INJ_DECIDE'), O_T, W)]),
 'C07': dict(
    quick=[S('T9c', 1, M_TP, O_T | og('PAYLOAD')), S('P7c', 0, M_P0 | mf('PAYLOAD'), O_P | og('PAYLOAD')), S('T2', 2, M_TP | mf('COMPOSITE'), og('CORE', 'PAYLOAD', 'MANUAL')), S('T6', 2, M_TP | mf('COMPOSITE'), og('CORE', 'PAYLOAD')), S('T2', 1, M_TP, O_T | og('PAYLOAD', 'PAYLOAD2', 'MANUAL', 'REPLAY', 'SERIAL')), S('P7a', 0, mf('REPORT', 'PAYLOAD'), og('CORE', 'PLAN', 'REPORT', 'PAYLOAD', 'PAYLOAD2')), S('T9', 1, M_TP, O_T | og('PAYLOAD', 'PAYLOAD2')), S('T2', 1, M_TP, O_T | og('PAYLOAD', 'MANUAL'), flags=['--copy', '--copy-move']), S('T9b', 1, M_TP, O_T | og('PAYLOAD'), flags=['--copy']), S('P7', 0, M_P0 | mf('PAYLOAD'), O_P | og('PAYLOAD'), flags=['--copy', '--copy-move']), S('T9a', 2, M_TP, O_T | og('PAYLOAD')), S('T9b', 2, M_TP, O_T | og('PAYLOAD', 'SERIAL')), S('P7a', 1, M_P0 | mf('PAYLOAD'), O_P | og('PAYLOAD')), S('P7b', 0, M_P0 | mf('PAYLOAD'), O_P | og('PAYLOAD')), S('P7h', 1, M_P0 | mf('PAYLOAD'), O_P | og('PAYLOAD', 'SERIAL')), S('T2t', 2, M_TP, O_T | og('PAYLOAD', 'MANUAL', 'REPLAY')), S('P7t', 1, M_P0 | mf('PAYLOAD'), O_P | og('PAYLOAD')), S('P7u', 0, M_P0 | mf('PAYLOAD'), O_P | og('PAYLOAD')), S('T2', 2, M_TP | mf('COMPOSITE'), og('CORE', 'PAYLOAD', 'MANUAL')), S('T9', 2, M_TP | mf('COMPOSITE'), og('CORE', 'PAYLOAD')), S('T2', 2, M_TP2, O_T | og('PAYLOAD', 'PAYLOAD2', 'MANUAL')), S('T6', 2, M_TP2, O_T | og('PAYLOAD', 'PAYLOAD2')), S('T9', 2, M_TP2, O_T | og('PAYLOAD', 'PAYLOAD2')), S('P7', 1, M_P | mf('PAYLOAD'), O_P | og('PAYLOAD'))],
    thorough=[S('T2', 3, M_TP2, O_T | og('PAYLOAD', 'PAYLOAD2', 'MANUAL'), W), S('T6', 3, M_TP2, O_T | og('PAYLOAD', 'PAYLOAD2'), W), S('T9', 3, M_TP2, O_T | og('PAYLOAD', 'PAYLOAD2'), W), S('T5', 2, M_TP2, O_T | og('PAYLOAD', 'PAYLOAD2', 'MANUAL'), W), S('P7', 2, M_P0 | mf('PAYLOAD'), O_P | og('PAYLOAD'), W), S('P2', 1, M_P0 | mf('PAYLOAD'), O_P | og('PAYLOAD', 'MANUAL'), W)]),
 'C08': dict(
    quick=[S('P6m', 0, M_P, O_P | og('MANUAL', 'SERIAL'), W), S('P7', 0, M_P0 | mf('PAYLOAD'), O_P | og('PAYLOAD'), W), S('P8c', 0, M_P0, og('CORE', 'PLAN', 'REPORT'), W), S('P5h', 1, M_P0, O_P | og('SERIAL'), W), S('P7h', 0, M_P0 | mf('PAYLOAD'), O_P | og('PAYLOAD', 'SERIAL'), W), S('P5t', 2, M_P0, O_P, W), S('P5u', 1, M_P, O_P | og('PLAN_REMOVE'), W), S('P7t', 1, M_P0 | mf('PAYLOAD'), O_P | og('PAYLOAD'), W), S('N8p', 2, M_P0 | mf('REPORT_OTHER'), O_P, W, flags=['--ids=0,7']), S('N7p', 1, M_P | mf('GUARD_REQ'), O_P | og('PLAN_REMOVE'), W, flags=['--ids=0,3,6']), S('P5', 2, M_P0, O_P, W), S('P3', 2, M_P, O_P | og('PLAN_REMOVE')), S('P6', 1, M_P, O_P | og('PLAN_REMOVE'), W), S('P5', 1, M_PG, O_P | og('REACT', 'PLAN_REMOVE'), W), S('P5', 1, M_PC, O_P, W), S('P3', 2, M_PC, O_P)],
    thorough=[S('P5', 2, M_PC, O_P, W, share=2), S('P5', 2, M_PG, O_P | og('REACT', 'PLAN_REMOVE'), W, share=3), S('P3', 3, M_P, O_P | og('PLAN_REMOVE'), W), S('P6', 2, M_P, O_P | og('PLAN_REMOVE'), W), S('P1', 1, M_P0, O_P, W, share=4), S('P7', 1, M_P | mf('PAYLOAD'), O_P | og('PAYLOAD'), W), S('P2', 1, M_P0 | mf('PAYLOAD'), O_P | og('PAYLOAD', 'MANUAL'), W, share=2)]),
 'C09': dict(
    quick=[S('P6m', 1, M_P, O_P | og('MANUAL', 'SERIAL'), W), S('P8c', 1, M_P0, og('CORE', 'PLAN', 'REPORT'), W), S('P7h', 0, M_P0 | mf('PAYLOAD'), O_P | og('PAYLOAD', 'SERIAL'), W), S('P5f', 2, M_P0, O_P, W), S('P5s', 2, M_P0, O_P, W), S('P5n', 1, M_P0, O_P, W), S('P5t', 2, M_P0, O_P, W), S('P5u', 1, M_P, O_P | og('PLAN_REMOVE'), W), S('N8p', 2, M_P0 | mf('REPORT_OTHER'), O_P, W, flags=['--ids=0,7']), S('N7p', 1, M_P, O_P | og('PLAN_REMOVE'), W, flags=['--ids=0,3,6']), S('P5', 2, M_P0, O_P, W), S('P5', 1, M_PC, O_P, W), S('P3', 2, M_PC, O_P), S('P3', 2, M_P, O_P | og('PLAN_REMOVE'), prefills=[0x00, 0xFF, 0xA5]), S('P6', 1, M_P, O_P | og('PLAN_REMOVE'), W), S('P5h', 1, M_P0, O_P | og('SERIAL', 'REPLAY'), W, prefills=[0xFF, 0xA5]),
           S('P3', 1, M_P, O_P | og('PLAN_REMOVE'), variant='plain-O0', prefills=[0x00, 0xFF, 0xA5]), S('P5', 1, M_P0, O_P, variant='plain-O0', prefills=[0x00, 0xFF])],
    thorough=[S('P5', 2, M_PC, O_P, W, share=2), S('P5', 2, M_PG, O_P | og('REACT', 'PLAN_REMOVE'), W, share=3, prefills=[0x00, 0xFF]), S('P3', 3, M_P, O_P | og('PLAN_REMOVE'), W, prefills=[0x00, 0xFF, 0xA5]), S('P6', 2, M_P, O_P | og('PLAN_REMOVE'), W), S('P1', 1, M_P0, O_P, W, share=4), S('P2', 1, M_P0 | mf('PAYLOAD'), O_P | og('PAYLOAD', 'MANUAL'), W, share=2), S('P5h', 1, M_P, O_P | og('SERIAL', 'REPLAY'), W)]),
 'C11': dict(
    quick=[S('T2', 2, M_TP2, O_T | og('PAYLOAD', 'MANUAL', 'REPLAY')), S('T6', 2, M_TP | mf('COMPOSITE'), og('CORE', 'PAYLOAD')), S('T1', 1, M_T, O_T | og('REPLAY'), flags=['--copy', '--copy-move']), S('T2', 1, M_TP, O_T | og('PAYLOAD', 'MANUAL', 'REPLAY'), flags=['--copy']), S('P7', 1, M_P0 | mf('PAYLOAD'), O_P | og('PAYLOAD', 'REPLAY'), flags=['--replica']), S('T2t', 2, M_TP, O_T | og('PAYLOAD', 'MANUAL', 'REPLAY', 'COPY', 'SERIAL'), flags=['--replica']), S('N8', 2, M_T, O_T | og('REPLAY'), flags=['--replica', '--ids=0,3,4,7']), S('N5', 1, M_T, O_T | og('REPLAY'), flags=['--replica']), S('T1', 2, M_T, O_T | og('REPLAY', 'COPY'), flags=['--replica']), S('T2', 2, M_TP, O_T | og('PAYLOAD', 'MANUAL', 'REPLAY', 'COPY', 'SERIAL'), flags=['--replica']), S('T3h', 3, M_T, O_T | og('REPLAY'), flags=['--replica']), S('T4', 1, M_T, O_T | og('REPLAY'), flags=['--replica'])],
    thorough=[S('T1', 3, M_T, O_T | og('REPLAY', 'COPY'), W, ['--replica']), S('T2', 3, M_TP, O_T | og('PAYLOAD', 'MANUAL', 'REPLAY', 'COPY', 'SERIAL'), W, ['--replica']), S('T3h', 4, M_T, O_T | og('REPLAY'), flags=['--replica']), S('T4', 2, M_T, O_T | og('REPLAY'), W, ['--replica']),
              S('T5', 2, M_TP, O_T | og('PAYLOAD', 'MANUAL', 'REPLAY', 'COPY', 'SERIAL'), W, ['--replica']), S('T6', 3, M_TP, O_T | og('PAYLOAD', 'REPLAY'), W, ['--replica']), S('P2', 1, M_P0 | mf('PAYLOAD'), O_P | og('PAYLOAD', 'MANUAL', 'REPLAY'), W, ['--replica'])]),
 'C15': dict(
    quick=[S('I9', 1, M_T, O_T), S('I10', 1, M_T, O_T), S('I9', 1, M_T | mf('INJ_DECIDE'), og('CORE')), S('I7', 2, M_T, O_T), S('I8', 1, M_T, O_T), S('I4', 1, M_P0, O_P | og('REACT')), S('I1', 1, M_T, O_T), S('I2', 2, M_T, O_T), S('I3', 2, M_T, O_T), S('I4', 1, M_P0, O_P), S('I5', 2, M_T, O_T), S('I6', 2, M_T, O_T), S('I1', 1, M_T | mf('INJ_DECIDE'), O_T), S('I2', 2, M_T | mf('INJ_DECIDE'), og('CORE')), S('I5', 1, M_T | mf('INJ_DECIDE'), O_T)],
    thorough=[S('I1', 2, M_T, O_T, W), S('I2', 3, M_T, O_T, W), S('I3', 3, M_T, O_T), S('I4', 2, M_P0, O_P, W), S('I1', 2, M_T | mf('INJ_DECIDE'), O_T, W), S('I2', 3, M_T | mf('INJ_DECIDE'), O_T, W), S('I5', 3, M_T, O_T, W), S('I6', 3, M_T, O_T, W), S('I5', 2, M_T | mf('INJ_DECIDE'), O_T, W), S('I6', 2, M_T | mf('INJ_DECIDE'), O_T, W)]),
 'C17': dict(
    quick=[S('P6m', 0, M_P0, O_P | og('MANUAL', 'COPY'), W, ['--copy']), S('P8c', 0, M_P0, og('CORE', 'PLAN', 'REPORT', 'COPY'), W, ['--copy']), S('T1', 2, M_T, O_T | og('REPLAY'), flags=['--copy', '--copy-move'], prefills=[0x00, 0xFF]), S('P5', 1, M_P0, O_P, W, ['--copy', '--copy-move']), S('T2', 1, M_TP, O_TALL, flags=['--copy', '--copy-move']), S('T2t', 2, M_TP, O_TALL, flags=['--copy']), S('P5t', 1, M_P, O_PALL, W, ['--copy']), S('N8p', 1, M_P | mf('REPORT_OTHER'), O_PALL, W, ['--copy', '--ids=0,7'], prefills=[0x00, 0xFF]), S('N8', 2, M_T, O_TALL, W, ['--copy', '--ids=0,3,4,7']), S('T1', 2, M_T, O_T | og('REPLAY', 'COPY', 'DESTROY'), flags=['--copy'], prefills=[0x00, 0xFF, 0xA5]), S('T2', 2, M_TP, O_TALL, flags=['--copy'], prefills=[0x00, 0xFF]),
           S('P5', 1, M_P, O_PALL, W, ['--copy'], prefills=[0x00, 0xFF, 0xA5]), S('P5h', 1, M_P0, O_PALL, W, ['--copy'], prefills=[0xFF]),
           S('T2', 1, M_TP, O_TALL, flags=['--copy'], variant='plain-O0', prefills=[0x00, 0xFF, 0xA5]), S('P3', 1, M_P, O_PALL, flags=['--copy'], variant='plain-O0', prefills=[0x00, 0xFF, 0xA5]),
           S('A2', 1, mf('PHASE_REQ', 'GUARD_CANCEL', 'REPORT', 'PLAN_EDIT', 'PAYLOAD'), og('CORE', 'PLAN', 'REPORT', 'MANUAL', 'SERIAL', 'REPLAY', 'COPY', 'DESTROY', 'PAYLOAD', 'LOG'), W, ['--copy'], prefills=[0x00, 0xFF]), S('A1', 0, mf('PHASE_REQ', 'GUARD_CANCEL', 'REPORT', 'PLAN_EDIT', 'PAYLOAD'), og('CORE', 'PLAN', 'REPORT', 'MANUAL', 'SERIAL', 'REPLAY', 'COPY', 'DESTROY', 'PAYLOAD', 'LOG'), W, ['--copy']),
           S('P7', 1, M_P0 | mf('PAYLOAD'), O_P | og('PAYLOAD', 'COPY', 'DESTROY'), W, ['--copy'], prefills=[0x00, 0xFF, 0xA5]), S('P7', 0, M_P0 | mf('PAYLOAD'), O_P | og('PAYLOAD', 'COPY'), W, ['--copy'], variant='plain-O0', prefills=[0x00, 0xFF])],
    thorough=[S('T1', 3, M_T, O_T | og('REPLAY', 'COPY', 'DESTROY'), W, ['--copy', '--copy-dev=2'], prefills=[0x00, 0xFF, 0xA5]), S('T2', 3, M_TP, O_TALL, W, ['--copy', '--copy-dev=2'], prefills=[0x00, 0xFF, 0xA5]),
              S('T5', 2, M_TP, O_TALL, W, ['--copy', '--copy-dev=2'], prefills=[0x00, 0xFF]), S('P5', 2, M_P, O_PALL, W, ['--copy', '--copy-dev=2'], prefills=[0x00, 0xFF, 0xA5], share=3), S('P5h', 1, M_P, O_PALL, W, ['--copy'], prefills=[0x00, 0xFF]),
              S('P2', 1, M_P0 | mf('PAYLOAD'), O_PALL, W, ['--copy'], prefills=[0x00, 0xFF], share=2), S('T4', 2, M_T, O_TALL, W, ['--copy'])]),
}

# every explorer-driven property is also run on builds under the other language standards (the default harness build is C++17),
# under clang with C++20, and with the project's debug define: one deviation, the small configurations of that property
_STD_VARIANTS = ('cxx11', 'cxx20', 'clang-cxx20', 'debug')
_STD_CFGS = ('T1', 'T2', 'T3', 'P3', 'P5', 'P7', 'I1', 'I2', 'I4', 'I5', 'T1t', 'P5t', 'P5h', 'S2', 'SM2')
for _p, _t in SPECS.items():
    _seen = set(); _extra = []
    for _sp in _t['quick']:
        if _sp['cfg'] not in _STD_CFGS or _sp['variant'] != 'plain' or _sp['cfg'] in _seen or len(_seen) >= 4: continue
        _seen.add(_sp['cfg'])
        for _v in _STD_VARIANTS:
            _d = dict(_sp); _d['variant'] = _v; _d['dev'] = min(_sp['dev'], 1); _d['prefills'] = None; _d['share'] = 0.5
            _extra.append(_d)
    _t['quick'] += _extra

# thorough tiers also run the large-machine specs of the quick tiers (N = 5, 7, 8 with id subsets), one deviation deeper
for _p, _t in SPECS.items():
    for _sp in list(_t['quick']):
        if _sp['cfg'] in ('N5', 'N7p', 'N8', 'N8p'):
            _d = dict(_sp); _d['dev'] = _sp['dev'] + 1; _d['share'] = 2.0
            _t['thorough'].append(_d)

LEVEL_TEXT = {}

def registered():
    return sorted(set(list(SPECS.keys()) + list(CUSTOM.keys())))

# --------------------------------------------------------------------------- generic fsmx-driven check
def tier_budget(tier):
    return 240.0 if tier == 'quick' else 2400.0

def run_specs(V, specs, tier, budget=None):
    """build all harnesses in parallel, then run the explorer for every spec (x header variant x prefill)"""
    hv = header_variants()
    jobs = []; index = []
    for sp in specs:
        for h in hv:
            jobs.append(((('fsmx.cpp'), CONFIGS[sp['cfg']]), dict(variant=sp['variant'], header=h)))
            index.append((sp, h))
    built = build_many(jobs)
    budget = budget or tier_budget(tier)
    total_share = sum(sp['share'] for sp, h in index) or 1.0
    t_begin = time.time()
    for (sp, h), (binary, err) in zip(index, built):
        if err:
            raise BuildFailed(err)
    # schedule: every run occupies `workers` of the NCPU slots; MSan runs are single-process (snapshots must stay in memory
    # for their shadow to survive) and therefore run side by side
    cond = threading.Condition(); free = [NCPU]
    def one(item):
        (sp, h), (binary, err) = item
        prefills = sp['prefills'] or [None]
        outs = []
        workers = 1 if sp['variant'] == 'msan' else sp['workers']
        for pf in prefills:
            dl0 = max(20.0, budget * sp['share'] / total_share / len(prefills) * 1.5)
            props = sp['props'] or ['C%02d' % int(V.prop[1:])]
            name = sp['cfg'] + ('/dev' if h == 'dev' else '') + ('' if sp['variant'] == 'plain' else '/' + sp['variant']) + ('' if pf is None else '/pf%02x' % pf) + '/d%d' % sp['dev'] + ('/strat' if '--strategies' in sp['flags'] else '')
            need = min(workers, NCPU)
            with cond:
                while free[0] < need: cond.wait()
                free[0] -= need
            # deadline: the share-proportional slice, or half of what is left of the tier budget when that is more (most runs finish
            # in seconds, so the few large ones may use the time the others left over); the sum stays within about the budget
            dl = max(dl0, (budget - (time.time() - t_begin)) * 0.5)
            try:
                run = run_fsmx(binary, name, props, sp['dev'], sp['mf'], sp['og'], workers=workers, deadline=dl, flags=sp['flags'], prefill=pf)
            finally:
                with cond:
                    free[0] += need; cond.notify_all()
            outs.append((pf, run))
        return (sp, h, outs)
    # big (multi-worker) runs first, one after the other; single-process runs fill the remaining slots
    items = list(zip(index, built))
    with ThreadPoolExecutor(max_workers=NCPU) as ex:
        results = list(ex.map(one, items))
    for sp, h, outs in results:
        digests = {}; incomplete = False
        for pf, run in outs:
            rs = dict(sp); rs['header'] = h
            V.add_fsmx(run, sp['cfg'], CONFIGS[sp['cfg']], rs)
            if sp['variant'] != 'plain' and (run['result'] is None or run['rc'] not in (0, 1) or 'VX-INFLIGHT' in run['stderr'] or 'runtime error' in run['stderr']):
                sanitizer_report(V, run, sp, h)
            if run['result'] is not None and pf is not None:
                if not run['result']['exhaustive']: incomplete = True      # a run cut short by its deadline cannot be compared
                digests[pf] = (run['result']['digest'], run['result']['states'], run['result']['transitions'])
        if incomplete:
            V.caps.append('%s: prefill differential skipped, a run did not complete' % sp['cfg'])
        elif len(set(digests.values())) > 1:
            V.add_violation('behaviour-depends-on-storage-prefill', 'the same exploration of %s gives different state graphs for different byte patterns pre-filling the instance storage: %s' % (sp['cfg'], {('0x%02x' % k): v for k, v in digests.items()}),
                            dict(kind='prefill-differential', config=sp['cfg'], defs=CONFIGS[sp['cfg']], prefills=list(digests.keys()), header=h))
        elif len(digests) > 1:
            V.extra.setdefault('prefill_differentials', []).append({'config': sp['cfg'], 'patterns': ['0x%02x' % k for k in digests], 'digest': list(digests.values())[0][0]})

def sanitizer_report(V, run, sp, h):
    se = run['stderr']
    m = re.search(r'VX-INFLIGHT replay=(\S+)', se)
    kind = 'sanitizer-report'
    first = ''
    for line in se.splitlines():
        if 'runtime error' in line or 'ERROR: AddressSanitizer' in line or 'MemorySanitizer' in line:
            first = line.strip(); break
    if not first and run['rc'] == 0: return
    V.errors = [e for e in V.errors if run['name'] not in e]
    V.add_violation(kind, '%s build of %s: %s' % (sp['variant'], sp['cfg'], first or ('terminated abnormally rc=%s: %s' % (run['rc'], se[-600:]))),
                    dict(kind='fsmx', config=sp['cfg'], defs=CONFIGS[sp['cfg']], variant=sp['variant'], header=h, replay=m.group(1) if m else '', props=['C18'], flags=[], stderr=se[-3000:]))

POST_HOOKS = {}    # prop -> fn(V, tier): public-API probes that complement the explorer runs (registered by vfchecks_more)
def fsmx_check(prop, tier):
    V = Verdict(prop, tier)
    V.assumptions = ['callbacks take at most one action per invocation (two for cancel+redirect); at most dev_bound non-default decisions per API call',
                     'histories respect the asserted preconditions of the library (DESIGN.md 4.3)',
                     'the canonical state key covers every named field of CoreT (checked indirectly: every state is re-derived from its witness history on a fresh instance)']
    specs = list(SPECS[prop][tier])
    if tier == 'thorough':   # the thorough tier contains the quick tier: whatever the quick run can report, the thorough run reports too
        have = set((sp['cfg'], sp['mf'], sp['og'], tuple(sp['flags']), sp['variant']) for sp in specs)
        specs += [sp for sp in SPECS[prop]['quick'] if (sp['cfg'], sp['mf'], sp['og'], tuple(sp['flags']), sp['variant']) not in have]
    run_specs(V, specs, tier)
    if prop in POST_HOOKS: POST_HOOKS[prop](V, tier)
    return V.finish(rule='breadth-first closure over canonical machine states; from each state every in-contract API call x every vector of callback decisions with at most dev_bound deviations is executed on the real code; a trace shape is the sequence of (event kind, state, method)')

# --------------------------------------------------------------------------- custom checks are registered by the modules below
CUSTOM = {}
def custom(prop):
    def deco(fn):
        CUSTOM[prop] = fn; return fn
    return deco

def run_check(prop, tier):
    prune_build_cache()
    try:
        if prop in CUSTOM:
            return CUSTOM[prop](tier)
        if prop in SPECS:
            return fsmx_check(prop, tier)
    except BuildFailed as e:
        # A harness states some facts about the library as static_assert (stateId<T>() == position, BYTE_COUNT, SERIAL_BITS, ...):
        # when exactly such an assertion of OUR source fails, that is a verdict, not a machinery error.
        out = str(e)
        m = re.search(r'(/verif/engine/[\w./]+):(\d+):\d+: error: static assertion failed:? ?(.*)', out)
        if m:
            V = Verdict(prop, tier)
            V.add_violation('static-assertion', 'a compile-time fact the check asserts about the library no longer holds: %s (%s:%s)' % (m.group(3).strip()[:200], m.group(1), m.group(2)), dict(kind='build', output=out[-3000:]))
            V.transitions = 1; V.states = 1
            return V.finish()
        # The first error sits inside the library's own sources (not in a harness file): the library no longer compiles for a client that
        # the unchanged tree accepts -- with this compiler, language standard and feature set. That is a defect of the tree under test,
        # reported by whichever check needed the build (the harness sources themselves did not change between the two trees).
        first = re.search(r'^(\S+?):(\d+):\d+: (?:fatal )?error: (.*)$', out, re.M)
        if first and os.path.realpath(first.group(1)).startswith(os.path.realpath(REPO) + os.sep):
            cmdline = out.splitlines()[0][:300]
            V = Verdict(prop, tier)
            V.add_violation('library-does-not-compile', 'the library does not compile for the harness of this check: %s:%s: %s || %s' % (os.path.relpath(first.group(1), REPO), first.group(2), first.group(3)[:300], cmdline), dict(kind='build', output=out[-3000:]))
            V.transitions = 1; V.states = 1
            return V.finish()
        raise
    print('vf: no check registered for', prop); return 2

def setup():
    jobs = []
    hv = header_variants()
    seen = set()
    for prop, tiers in SPECS.items():
        for sp in tiers['quick']:
            for h in hv:
                k = (sp['cfg'], sp['variant'], h)
                if k in seen: continue
                seen.add(k); jobs.append((('fsmx.cpp', CONFIGS[sp['cfg']]), dict(variant=sp['variant'], header=h)))
    for fn in SETUP_HOOKS: jobs += fn()
    t0 = time.time()
    res = build_many(jobs)
    bad = [e for p, e in res if e]
    print('vf setup: %d harnesses built in %.1fs, %d failed' % (len(res) - len(bad), time.time() - t0, len(bad)))
    for e in bad[:3]: print(e[-1500:])
    return 0     # a harness that cannot be built is reported by the check that needs it

SETUP_HOOKS = []

def replay(path):
    r = json.load(open(path))
    kind = r.get('kind')
    if kind == 'fsmx':
        binary = build('fsmx.cpp', r['defs'], variant=r.get('variant', 'plain'), header=r.get('header', 'shipped'))
        cmd = [binary, '--props=' + ','.join(r['props']), '--replay=' + r['replay']] + r.get('flags', [])
        print('replaying', r['property'], r['predicate'], 'on', r['config']); print(' '.join(cmd))
        p = subprocess.run(cmd); return 1 if p.returncode else 0
    if kind in REPLAYERS:
        return REPLAYERS[kind](r)
    print('replay: this artefact is descriptive only:'); print(json.dumps(r, indent=1)[:4000]); return 1

REPLAYERS = {}

import vfchecks_more   # noqa  (registers C10, C12, C13, C14, C16, C18, C19, C20)
