"""vfchecks_more -- checks that are not plain fsmx explorations (registered into vfchecks.CUSTOM):
C10 (plan capacity), C12 (serialization), C13 (bit stream), C14 (ids / dispatch), C16 (logging), C18 (UB / allocation), C19 (feature matrix), C20 (containers)."""
import os, sys, json, time, subprocess, re, itertools, hashlib
import vfchecks as vc
from vflib import *
from vfchecks import S, CONFIGS, M_T, M_G, M_TP, M_TP2, M_P, M_P0, M_PG, O_T, O_TALL, O_P, O_PALL, W

PROBES = os.path.join(ENGINE, 'probes')

def run_harness(binary, args, timeout=3000):
    out = os.path.join(BUILD, 'r_%d_%s.json' % (os.getpid(), hashlib.sha1((binary + ' '.join(args)).encode()).hexdigest()[:8]))
    env = dict(os.environ); env.setdefault('ASAN_OPTIONS', 'detect_leaks=0'); env.setdefault('UBSAN_OPTIONS', 'print_stacktrace=1:halt_on_error=1')
    try:
        p = subprocess.run([binary, '--out=' + out] + list(args), stdout=subprocess.PIPE, stderr=subprocess.PIPE, text=True, timeout=timeout, env=env)
        rc, so, se = p.returncode, p.stdout, p.stderr
    except subprocess.TimeoutExpired:
        rc, so, se = -9, '', 'TIMEOUT'
    res = None
    if os.path.exists(out):
        try: res = json.load(open(out))
        except Exception: res = None
        os.unlink(out)
    return dict(rc=rc, stdout=so, stderr=(se if len(se) <= 6000 else se[:3000] + '\n...\n' + se[-3000:]), result=res)   # head AND tail: a sanitizer's report line comes first, its (long) stack after it

def add_seqx(V, run, name, replay_info):
    r = run['result']
    if r is None:
        se = run['stderr']
        if 'runtime error' in se or 'Sanitizer' in se:
            first = [l for l in se.splitlines() if 'runtime error' in l or 'ERROR:' in l][:1]
            V.add_violation('sanitizer-report', '%s: %s' % (name, first[0] if first else se[-400:]), dict(kind='harness', name=name, stderr=se[-2500:], **replay_info))
        else:
            V.errors.append('%s produced no result (rc=%s): %s' % (name, run['rc'], se[-800:]))
        return
    V.states += r['states']; V.transitions += r['transitions']; V.validated += r['transitions']
    V.tables.append({k: r.get(k) for k in r if k not in ('witnesses', 'samples')} | {'name': name})
    if not r['exhaustive']: V.exhaustive = False; V.caps.append(name + ': deadline')
    for s in r.get('samples', [])[:2]: V.samples.append({'harness': name, 'case': s})
    seen = set()
    for w in r['witnesses']:
        if w['pred'] in seen: continue
        seen.add(w['pred'])
        V.add_violation(w['pred'], '%s: %s' % (name, w['text']), dict(kind='harness', name=name, replay=w['replay'], **replay_info), count=r['violations'])

def probe(V, source, defs, pred_fail, what, std='c++11', run_it=True, variant=None, extra=None):
    """public-API probe: failing to build IS the verdict (the API named by the property cannot be used)"""
    cmd = ['g++', '-std=' + std, '-I' + os.path.join(REPO, 'include'), '-I' + os.path.join(REPO, 'development')] + ['-D' + d for d in defs] + (extra or [])
    src = os.path.join(PROBES, source)
    key = hashlib.sha1(json.dumps([repo_fingerprint(), open(src).read(), cmd]).encode()).hexdigest()[:16]
    out = os.path.join(BUILD, 'p_' + key)
    if not os.path.exists(out):
        p = subprocess.run(cmd + [src, '-o', out + '.tmp'], stdout=subprocess.PIPE, stderr=subprocess.STDOUT, text=True)
        if p.returncode != 0:
            lines = [l for l in p.stdout.splitlines() if 'error' in l or 'undefined reference' in l]
            V.add_violation(pred_fail, '%s: the program does not build: %s' % (what, (lines[0] if lines else p.stdout[-300:])[:500]), dict(kind='probe', source=source, defs=defs, std=std, cmd=' '.join(cmd + [src]), output=p.stdout[-3000:]))
            return False
        os.replace(out + '.tmp', out)
    V.transitions += 1; V.validated += 1
    if run_it:
        try:
            p = subprocess.run([out], stdout=subprocess.PIPE, stderr=subprocess.STDOUT, text=True, timeout=120)
        except subprocess.TimeoutExpired as te:
            class _P: pass
            p = _P(); p.returncode = -9; p.stdout = 'the program did not terminate within 120 s (a library call does not return)'
        if p.returncode != 0:
            V.add_violation(pred_fail + '-behaviour', '%s: %s' % (what, p.stdout[-500:]), dict(kind='probe', source=source, defs=defs, std=std, cmd=' '.join(cmd + [src]), output=p.stdout[-3000:]))
            return False
        V.samples.append({'probe': source, 'defs': defs, 'output': p.stdout.strip()[-200:]})
    return True

def config_chain(V, kinds):
    """every order of every subset of the five Config builder settings (326 chains) behaves as configured; `kinds` selects
    which settings the calling property is about (limit, capacity, activation, context, payload)"""
    for h in header_variants():
        defs = ['VX_DEV_HEADER'] if h == 'dev' else []
        cmd = ['g++', '-std=c++11', '-I' + os.path.join(REPO, 'include'), '-I' + os.path.join(REPO, 'development')] + ['-D' + d for d in defs]
        src = os.path.join(PROBES, 'probe_config_chain.cpp')
        key = hashlib.sha1(json.dumps([repo_fingerprint(), open(src).read(), cmd]).encode()).hexdigest()[:16]
        out = os.path.join(BUILD, 'p_' + key)
        rec = dict(kind='probe', source='probe_config_chain.cpp', defs=defs, std='c++11', cmd=' '.join(cmd + [src]))
        if not os.path.exists(out):
            p = subprocess.run(cmd + [src, '-o', out + '.tmp'], stdout=subprocess.PIPE, stderr=subprocess.STDOUT, text=True)
            if p.returncode != 0:
                lines = [l for l in p.stdout.splitlines() if 'error' in l]
                V.add_violation('config-chain-unusable', 'a chain of Config settings (Context, ManualActivation, SubstitutionLimitN, TaskCapacityN, PayloadT in some order) does not build: %s' % (lines[0] if lines else p.stdout[-300:])[:500], dict(rec, output=p.stdout[-3000:]))
                continue
            os.replace(out + '.tmp', out)
        try:
            p = subprocess.run([out], stdout=subprocess.PIPE, stderr=subprocess.STDOUT, text=True, timeout=120)
            so = p.stdout
        except subprocess.TimeoutExpired:
            V.add_violation('config-chain-hangs', 'the configuration-chain program did not terminate within 120 s (a library call does not return)', dict(rec, output='')); continue
        mism = re.findall(r'MISMATCH kind=(\w+) chain=(\S+) got=(-?\d+) expected=(-?\d+)', so)
        if p.returncode not in (0, 1) or (p.returncode == 1 and not mism):
            V.add_violation('config-chain-crash', 'the configuration-chain program ended abnormally (rc=%d): %s' % (p.returncode, so[-300:]), dict(rec, output=so[-3000:])); continue
        mine = [m for m in mism if m[0] in kinds or m[0] == 'baseline']
        V.transitions += 326; V.validated += 326; V.states += 32
        seen = set()
        for kind, chain, got, exp in mine:
            if kind in seen: continue
            seen.add(kind)
            n = sum(1 for m in mine if m[0] == kind)
            V.add_violation('configured-%s-not-in-effect' % kind, '%s header: Config chain %s: configured %s %s, the machine behaves as %s (%d of 326 chains affected)' % (h, chain, kind, exp, got, n), dict(rec, output=so[-3000:]))
        if not mine: V.samples.append({'probe': 'probe_config_chain.cpp', 'header': h, 'kinds': sorted(kinds), 'output': so.strip().splitlines()[-1][:200]})

def ctor_forms(V):
    """an automatically activated machine starts in its first declared state and dispatches to it, however it was constructed"""
    for h in header_variants():
        probe(V, 'probe_ctor_forms.cpp', ['VX_DEV_HEADER'] if h == 'dev' else [], 'constructor-form', 'construction from no context / lvalue / temporary / moved / reference / pointer context, with and without root head (%s header)' % h)

def replay_probe(r):
    print(r.get('cmd', '')); print(r.get('output', '')[-3000:])
    p = subprocess.run(r['cmd'].split() + ['-o', os.path.join(BUILD, 'replay_probe')], stdout=subprocess.PIPE, stderr=subprocess.STDOUT, text=True)
    print(p.stdout[-3000:])
    if p.returncode != 0: return 1
    p = subprocess.run([os.path.join(BUILD, 'replay_probe')]); return 1 if p.returncode else 0
vc.REPLAYERS['probe'] = replay_probe

def replay_harness(r):
    binary = build(r['source'], r.get('defs', []), variant=r.get('variant', 'plain'), header=r.get('header', 'shipped'), access=r.get('access', True), extra=r.get('extra'))
    cmd = [binary] + r.get('args', []) + ['--replay=' + r.get('replay', '')]
    print(' '.join(cmd)); p = subprocess.run(cmd); return 1 if p.returncode else 0
vc.REPLAYERS['harness'] = replay_harness

# =========================================================================== C10
CONFIGS['P8'] = cfg(N=2, HEAD=1, CAP=4, L=1, CTX=0, feats=('PLANS',))
CONFIGS['P6m'] = cfg(N=2, HEAD=0, MANUAL=1, CAP=3, L=1, CTX=0, feats=('PLANS', 'SER'))
CONFIGS['P9'] = cfg(N=2, HEAD=0, CAP=0, L=1, CTX=0, feats=('PLANS',))
M_PL = mf('PHASE_REQ', 'REPORT', 'PLAN_EDIT', 'LIFE_EDIT')
O_PL = og('CORE', 'PLAN', 'REPORT', 'PLAN_REMOVE', 'LOG')

@vc.custom('C10')
def check_c10(tier):
    V = Verdict('C10', tier)
    V.assumptions = ['plan edits are made on an active machine', 'TaskCapacityN<255> is the library\'s "use the state count" sentinel (DESIGN.md O1): explicit capacities are checked on 1..254']
    firstlast = probe(V, 'probe_plan_firstlast.cpp', [], 'plan-first-last-unusable', 'first()/last() of the mutable plan (Instance::plan(), control.plan())')
    config_chain(V, {'capacity'})
    extra = ['VX_PLAN_FIRSTLAST'] if firstlast else []
    # plan through a real machine
    specs = [S('P5', 1, M_PL, O_PL), S('P6', 1, M_PL, O_PL), S('P3', 2, M_PL, O_PL), S('P7', 1, M_PL | mf('PAYLOAD'), O_PL | og('PAYLOAD')), S('P5h', 1, M_PL, O_PL | og('SERIAL', 'REPLAY')), S('P6m', 0, M_PL, O_PL | og('SERIAL', 'MANUAL')), S('P5t', 1, M_PL, O_PL), S('P5u', 1, M_PL, O_PL), S('P8c', 0, M_PL, O_PL), S('P7u', 0, M_PL | mf('PAYLOAD'), O_PL | og('PAYLOAD'))]
    if tier == 'thorough': specs = specs + [S('P5', 2, M_PL, O_PL, share=3), S('P6', 2, M_PL, O_PL, share=3), S('P3', 3, M_PL, O_PL), S('P7', 1, M_PL | mf('PAYLOAD'), O_PL | og('PAYLOAD')), S('P8', 1, M_PL, O_PL, share=3), S('P9', 1, M_PL, O_PL, share=2), S('P2', 1, M_PL | mf('PAYLOAD'), O_PL | og('PAYLOAD', 'MANUAL'), share=2)]
    saved = {}
    for sp in specs:
        saved[sp['cfg']] = CONFIGS[sp['cfg']]
        CONFIGS[sp['cfg']] = CONFIGS[sp['cfg']] + extra
    try:
        vc.run_specs(V, specs, tier, budget=120 if tier == 'quick' else 900)
    finally:
        for k, v in saved.items(): CONFIGS[k] = v
    # free list below the plan
    for h in header_variants():
        b = build('seqx_containers.cpp', ['VX_PART=3'], header=h, variant='plain')
        add_seqx(V, run_harness(b, ['--what=tasklist', '--workers=%d' % NCPU] + (['--thorough'] if tier == 'thorough' else [])), 'tasklist/' + h, dict(source='seqx_containers.cpp', defs=['VX_PART=3'], header=h, args=['--what=tasklist']))
    # capacity boundary through the public API
    caps = [['VX_CAPN=1', 'VX_NST=2'], ['VX_CAPN=2', 'VX_NST=1'], ['VX_CAPN=7', 'VX_NST=3'], ['VX_CAPN=254', 'VX_NST=3'], ['VX_DEFAULT_CAP', 'VX_NST=1'], ['VX_DEFAULT_CAP', 'VX_NST=4']]
    if tier == 'thorough': caps += [['VX_CAPN=%d' % c, 'VX_NST=2'] for c in (3, 8, 9, 16, 127, 128, 253)] + [['VX_DEFAULT_CAP', 'VX_NST=255'], ['VX_DEFAULT_CAP', 'VX_NST=64']]
    else: caps += [['VX_DEFAULT_CAP', 'VX_NST=255']]
    with ThreadPoolExecutor(max_workers=NCPU) as ex:
        list(ex.map(lambda d: probe(V, 'plan_capacity.cpp', d, 'plan-capacity', 'fill/drain/refill/fire at capacity (%s)' % ' '.join(d), std='c++14', extra=['-O1', '-w']), caps))
    return V.finish(rule='closure over machine states with plan edits at every callback that offers them (iterator removal of every subset of positions); closure over the full internal state of TaskListT for C<=5(6); scripted fill/drain/recycle at the boundary capacities')

# =========================================================================== C12 / C14: sweep over the number of states
N_QUICK = [1, 2, 3, 4, 5, 6, 7, 8, 9, 15, 16, 17, 31, 32, 33, 63, 64, 65, 127, 128, 129, 254, 255]
def n_list(tier):
    return N_QUICK if tier == 'quick' else list(range(1, 256))

SWEEP_FLAVOURS = {
    'root-auto':      ['VX_HEAD=1'],
    'peer-manual-ser': ['VX_HEAD=0', 'VX_MANUAL=1', FEAT['SER']],
    'root-auto-ser':  ['VX_HEAD=1', FEAT['SER']],
    'root-auto-plans': ['VX_HEAD=1', FEAT['PLANS']],            # + a plan walked through every state, outcome callbacks, user data in the state objects
    'peer-auto-plans': ['VX_HEAD=0', FEAT['PLANS']],
    'root-auto-plans-cap4': ['VX_HEAD=1', FEAT['PLANS'], 'VX_TASKCAP=4'],   # user-chosen task capacity below the state count: per-state bookkeeping must not shrink with it
    'root-auto-hist': ['VX_HEAD=1', FEAT['HIST']],              # + replayTransition(k) from j, and the same k again
}
def sweep(V, tier, flavours, budget, ns=None):
    ns = ns or n_list(tier)
    jobs = []
    for h in header_variants():
        for fl in flavours:
            for n in ns:
                if fl == 'root-auto-ser' and tier == 'quick' and n not in (1, 2, 3, 8, 9, 17, 64, 255): continue
                jobs.append((n, fl, h))
    # big N first so that the long compiles start early; at most 8 of the huge ones in flight (memory)
    jobs.sort(key=lambda j: -j[0])
    t0 = time.time()
    sem = threading.Semaphore(8)
    def one(job):
        n, fl, h = job
        if time.time() - t0 > budget: return (job, None, 'deadline')
        big = n >= 200
        if big: sem.acquire()
        try:
            b, err = try_build('sweepx_n.cpp', ['VX_NSTATES=%d' % n] + SWEEP_FLAVOURS[fl], variant='plain', header=h, access=False, extra=['-O1' if n > 40 else '-O2', '-w', '-ftemplate-depth=2048'])
        finally:
            if big: sem.release()
        if err: return (job, None, err)
        return (job, run_harness(b, []), None)
    with ThreadPoolExecutor(max_workers=NCPU) as ex:
        results = list(ex.map(one, jobs))
    for (n, fl, h), run, err in results:
        if err == 'deadline':
            V.exhaustive = False; V.caps.append('N=%d %s: not built before the deadline' % (n, fl)); continue
        if err: raise BuildFailed(err)
        add_seqx(V, run, 'sweep/N=%d/%s/%s' % (n, fl, h), dict(source='sweepx_n.cpp', defs=['VX_NSTATES=%d' % n] + SWEEP_FLAVOURS[fl], header=h, access=False))
    V.extra['state_counts'] = '%d..%d (%d values)' % (ns[0], ns[-1], len(ns))

import threading

@vc.custom('C14')
def check_c14(tier):
    V = Verdict('C14', tier)
    V.assumptions = ['callbacks of the swept machines take no decisions (dispatch only); guard-decision behaviour is the subject of C02-C04']
    sweep(V, tier, ['root-auto', 'peer-manual-ser'], 200 if tier == 'quick' else 1700)
    sweep(V, tier, ['root-auto-hist'], 150 if tier == 'quick' else 600, ns=[1, 2, 3, 5, 8, 9, 17, 64, 129, 255] if tier == 'quick' else [1, 2, 3, 4, 5, 6, 7, 8, 9, 16, 17, 31, 33, 64, 65, 127, 128, 129, 200, 254, 255])
    ctor_forms(V)
    vc.run_specs(V, [S('T1', 1, M_T, O_TALL), S('P5', 1, M_P0, O_P), S('I1', 1, M_T, O_T), S('T2', 1, M_TP, O_TALL), S('P5h', 0, M_P0, O_PALL), S('T1q', 1, M_T, O_T), S('I1q', 1, M_T, O_T), S('I2', 1, M_T, O_T)], tier, budget=60 if tier == 'quick' else 300)
    # keep only what C14 judges: drop serialization predicates reported by the shared harness
    V.violations = [v for v in V.violations if not re.match(r'(save|load|buffer)', v['pred'])]
    return V.finish(rule='one machine per state count N and root flavour; every ordered pair (j,k) of states is driven with immediateChangeTo and the deliveries compared with the expected four callbacks; stateId<T>() checked by static_assert for every state')

CONFIGS['T2s'] = cfg(N=2, HEAD=0, MANUAL=1, PAYLOAD=0, L=2, CTX=0, feats=('SER',))
CONFIGS['T3s'] = cfg(N=3, HEAD=1, MANUAL=1, PAYLOAD=4, L=2, CTX=1, feats=('SER',))
SER_COMBOS = [(), ('PLANS',), ('HIST',), ('LOG',), ('VERBOSE',), ('PLANS', 'HIST'), ('HIST', 'LOG'), ('PLANS', 'HIST', 'VERBOSE'), ('PLANS', 'LOG'), ('PLANS', 'VERBOSE'), ('HIST', 'VERBOSE'), ('PLANS', 'HIST', 'LOG'), ('STRUCT', 'DBGTYPE'), ('NOTYPEINDEX', 'HIST'), ('PLANS', 'HIST', 'LOG', 'STRUCT', 'DBGTYPE', 'NOTYPEINDEX')]

@vc.custom('C12')
def check_c12(tier):
    V = Verdict('C12', tier)
    V.assumptions = ['buffers handed to load() were produced by save() of the same machine type', 'load() only sees the buffer: (saver state, loader state) pairs are covered as every saver state x canonical buffer and every loader state x every buffer']
    O = O_T | og('MANUAL', 'SERIAL', 'PAYLOAD', 'REPLAY', 'COPY')
    specs = [S('T2s', 2, M_T, O), S('T2a', 2, M_T, O), S('T3s', 1, M_TP, O), S('A2', 1, mf('PHASE_REQ', 'GUARD_CANCEL', 'REPORT', 'PLAN_EDIT', 'PAYLOAD'), og('CORE', 'PLAN', 'REPORT', 'MANUAL', 'SERIAL', 'REPLAY', 'COPY', 'DESTROY', 'PAYLOAD', 'LOG')), S('A1', 0, mf('PHASE_REQ', 'GUARD_CANCEL', 'REPORT', 'PLAN_EDIT', 'PAYLOAD'), og('CORE', 'PLAN', 'REPORT', 'MANUAL', 'SERIAL', 'REPLAY', 'COPY', 'DESTROY', 'PAYLOAD', 'LOG'))]
    specs += [S('T2q', 2, M_T, O), S('T2aq', 1, M_T, O), S('T5q', 1, M_TP, O), S('P5hq', 0, M_P0, O_P | og('SERIAL')), S('P5h', 1, mf('PHASE_REQ', 'REPORT', 'PLAN_EDIT', 'LIFE_EDIT'), og('CORE', 'PLAN', 'SERIAL')), S('P6m', 1, mf('PHASE_REQ', 'PLAN_EDIT', 'LIFE_EDIT'), og('CORE', 'PLAN', 'SERIAL', 'MANUAL'))]    # callbacks that plan while load() runs
    combos = SER_COMBOS[:8] if tier == 'quick' else SER_COMBOS
    for i, c in enumerate(combos):
        name = 'T2x%d' % i
        CONFIGS[name] = cfg(N=2, HEAD=1, MANUAL=1, PAYLOAD=0, L=2, CTX=0, CAP=2 if 'PLANS' in c else 0, feats=('SER',) + tuple(c))
        specs.append(S(name, 1, M_T, O | (og('PLAN', 'REPORT') if 'PLANS' in c else 0)))
    if tier == 'thorough': specs += [S('T2', 2, M_TP, O_TALL), S('T5', 2, M_TP, O_TALL), S('T2s', 3, M_T, O), S('T3s', 2, M_TP, O)]
    try:
        vc.run_specs(V, specs, tier, budget=120 if tier == 'quick' else 600)
    except BuildFailed as e:
        # "with any combination of the other features enabled": a combination that does not compile is a verdict for this property
        m = re.search(r'(FFSM2_ENABLE_\w+=.*?)(?:\s/|\s-o)', str(e))
        lines = [l for l in str(e).splitlines() if 'error' in l][:2]
        V.add_violation('feature-combination-does-not-compile', 'serialization together with other features does not compile: %s' % ' | '.join(l.strip()[:300] for l in lines), dict(kind='build', output=str(e)[-3000:]))
    sweep(V, tier, ['peer-manual-ser', 'root-auto-ser'], 200 if tier == 'quick' else 1700)
    V.violations = [v for v in V.violations if not re.match(r'(dispatch|access-identity|control-stateId|initial-state|state-data)', v['pred'])]
    return V.finish(rule='fsmx: save and load(every canonical buffer) are operations of the alphabet from every reachable state; sweep: every (saver activity, loader activity) pair for each N')

# =========================================================================== C13
@vc.custom('C13')
def check_c13(tier):
    V = Verdict('C13', tier)
    V.assumptions = ['field values wider than %d bits are drawn from the alphabet {0,1,max,max-1,0xAA..,0x55..,every single-bit value, every single-zero value}; narrower fields use every value' % (16 if tier == 'thorough' else 11)]
    for h in header_variants():
        b = build('seqx_bitstream.cpp', [], header=h, access=False, extra=['-w'])
        add_seqx(V, run_harness(b, ['--workers=%d' % NCPU] + (['--thorough'] if tier == 'thorough' else [])), 'bitstream/' + h, dict(source='seqx_bitstream.cpp', defs=[], header=h, access=False, extra=['-w']))
    # other language standards / compilers / the debug define (the 2^32 bitWidth sweep is done once, above)
    for v in ('cxx11', 'cxx20', 'clang-cxx11', 'debug'):
        b = build('seqx_bitstream.cpp', [], variant=v, access=False, extra=['-w'])
        add_seqx(V, run_harness(b, ['--workers=%d' % NCPU, '--skip-bitwidth'] + (['--thorough'] if tier == 'thorough' else [])), 'bitstream/' + v, dict(source='seqx_bitstream.cpp', defs=[], variant=v, access=False, extra=['-w'], args=['--skip-bitwidth']))
    # "the bit width derived for a state count always suffices": the serialization sweep's compile-time facts (SERIAL_BITS == 1 + bitWidth(N))
    # and its saves inside guarded buffers, for the state counts around the powers of two
    before = len(V.violations)
    sweep(V, tier, ['peer-manual-ser'], 150 if tier == 'quick' else 600, ns=[1, 2, 3, 4, 8, 16, 32, 63, 64, 65, 127, 128, 129, 255] if tier == 'quick' else [1, 2, 3, 4, 5, 7, 8, 9, 15, 16, 17, 31, 32, 33, 63, 64, 65, 127, 128, 129, 200, 254, 255])
    V.violations = V.violations[:before] + [v for v in V.violations[before:] if re.match(r'(save|load|buffer|static)', v['pred'])]
    return V.finish(rule='every cursor x width x value (see assumptions) x three prefix fillings; every pair of consecutive fields at the 8 byte offsets; closure over all write sequences for small capacities; every capacity 1..255; bitWidth for all 2^32 arguments. "states" counts distinct (cursor, content) stream states of the closures, "transitions" every verified write/argument')

# =========================================================================== C20
@vc.custom('C20')
def check_c20(tier):
    V = Verdict('C20', tier)
    iter_ok = probe(V, 'probe_static_array_iter.cpp', [], 'static-array-iteration-unusable', 'begin()/end() iteration over StaticArrayT')
    jobs = []
    for h in header_variants():
        for lo, hi in ((1, 64), (65, 128), (129, 192), (193, 255)):
            jobs.append((('seqx_containers.cpp', ['VX_PART=1', 'VX_CLO=%d' % lo, 'VX_CHI=%d' % hi]), dict(header=h, extra=['-O1', '-w']), 'bitarray', h, lo, hi))
            jobs.append((('seqx_containers.cpp', ['VX_PART=2', 'VX_CLO=%d' % lo, 'VX_CHI=%d' % hi] + (['VX_STATIC_ARRAY_ITER'] if iter_ok else [])), dict(header=h, extra=['-O1', '-w']), 'arrays', h, lo, hi))
    # the same under C++11 (the library has FFSM2_CONSTEXPR(11)/(14) code paths), C++20 and the project's debug define, on the capacity
    # ranges where units and words change (1..64, 193..255)
    for v in ('cxx11', 'cxx20', 'debug'):
        for lo, hi in ((1, 64), (193, 255)):
            jobs.append((('seqx_containers.cpp', ['VX_PART=1', 'VX_CLO=%d' % lo, 'VX_CHI=%d' % hi]), dict(variant=v, extra=['-O1', '-w']), 'bitarray', v, lo, hi))
            jobs.append((('seqx_containers.cpp', ['VX_PART=2', 'VX_CLO=%d' % lo, 'VX_CHI=%d' % hi] + (['VX_STATIC_ARRAY_ITER'] if iter_ok else [])), dict(variant=v, extra=['-O1', '-w']), 'arrays', v, lo, hi))
    built = build_many([(j[0], j[1]) for j in jobs])
    for (a, kw, what, h, lo, hi), (b, err) in zip(jobs, built):
        if err: raise BuildFailed(err)
        add_seqx(V, run_harness(b, ['--what=' + what, '--workers=%d' % min(NCPU, 8)] + (['--thorough'] if tier == 'thorough' else [])), '%s[%d..%d]/%s' % (what, lo, hi, h), dict(source='seqx_containers.cpp', defs=a[1], header=kw.get('header', 'shipped'), variant=kw.get('variant', 'plain'), extra=kw.get('extra'), args=['--what=' + what]))
    return V.finish(rule='BitArrayT<C>: closure over every reachable raw content for small C (expected exactly 2^C), bounded op sequences from seeds for every other C; arrays: per-capacity scripts for C = 1..255 and two element types')

# =========================================================================== C16
CONFIGS['L1'] = cfg(N=3, HEAD=1, L=2, CTX=1, feats=('LOG',))
CONFIGS['L2'] = cfg(N=3, HEAD=1, L=2, CTX=1, feats=('VERBOSE',))
CONFIGS['L0'] = cfg(N=3, HEAD=1, L=2, CTX=1)

@vc.custom('C16')
def check_c16(tier):
    V = Verdict('C16', tier)
    d = 1 if tier == 'quick' else 2
    OL = O_T | og('LOG')
    specs = [S('G1', 1, M_T, og('CORE', 'LOG', 'WITHDRAW')), S('T1', 2, M_T | mf('COMPOSITE'), og('CORE', 'LOG')), S('GP1', 1, M_P0 | mf('COMPOSITE'), O_P), S('T1', 2 if tier == 'quick' else 3, M_T, OL | og('REPLAY')), S('G1', d, M_T, OL), S('G2', d, M_T, OL), S('GP1', d, M_P0 | mf('GUARD_REQ'), O_P | og('REACT')), S('GP2', 1, M_P0, O_P), S('T2', 1, M_TP, O_TALL),
             S('GI1', 2, M_T | mf('INJ_DECIDE'), OL), S('GI2', d, M_T | mf('INJ_DECIDE'), OL), S('GI1', 1, M_T | mf('INJ_DECIDE', 'COMPOSITE'), og('CORE', 'LOG')), S('GQ1', 1, M_P0 | mf('PAYLOAD'), O_P | og('PAYLOAD')), S('GQ2', 0, M_P0 | mf('PAYLOAD'), O_P | og('PAYLOAD')), S('G1t', 1, M_T, OL), S('GP1t', 1, M_P0, O_P), S('P5f', 1, M_P0, O_P), S('P5s', 1, M_P0, O_P), S('P5n', 1, M_P0, O_P), S('T1r', 1, M_T, OL), S('T1', 2, mf('PHASE_REQ', 'GUARD_CANCEL', 'LOG_TOGGLE'), og('CORE', 'LOG')), S('T1', 1, M_T, OL, flags=['--copy', '--copy-move']), S('G2', 1, mf('PHASE_REQ', 'LOG_TOGGLE'), og('CORE', 'LOG'))]
    vc.run_specs(V, specs, tier, budget=100 if tier == 'quick' else 600)
    # differential: compiled out / compiled in (attached, detached, attached later) / verbose must be behaviourally identical
    for fam, names, mfv, ogv, nflag in (('plain', ('L0', 'L1', 'L2'), M_T, O_T, '--neutral'), ('bare', ('G0', 'G1', 'G2'), M_T, O_T, '--neutral'), ('plans', ('GP0', 'GP1', 'GP2'), M_P0, og('CORE', 'PLAN', 'REPORT'), '--neutral'),
                                       ('injections', ('GI0', 'GI1', 'GI2'), M_T | mf('INJ_DECIDE'), O_T, '--neutral'), ('payload-plans', ('GQ0', 'GQ1', 'GQ2'), M_P0 | mf('PAYLOAD'), og('CORE', 'PLAN', 'REPORT', 'PAYLOAD'), '--neutral=5')):
        digs = {}
        for h in header_variants():
            for nm in names:
                b = build('fsmx.cpp', CONFIGS[nm], header=h)
                run = run_fsmx(b, nm + '/neutral', ['C16'], d, mfv, ogv | og('LOG'), workers=NCPU, flags=[nflag], deadline=200 if tier == 'quick' else 1200)
                rs = dict(S(nm, d, mfv, ogv)); rs['header'] = h
                V.add_fsmx(run, nm, CONFIGS[nm], rs)
                if run['result']:
                    digs[(nm, h)] = (run['result']['neutral_digest'], run['result']['neutral_tuples'])
                    if not run['result']['exhaustive']: digs = None; break
            if digs is None: break
        if digs is None:
            V.caps.append('logging differential (%s family) skipped: a run did not complete' % fam); V.exhaustive = False
        elif len(set(digs.values())) > 1:
            V.add_violation('logging-perturbs-behaviour', 'the set of (state, call, decisions, callbacks+observations, result) tuples differs between builds without logging, with logging and with verbose logging (%s family): %s' % (fam, {'%s/%s' % k: v for k, v in digs.items()}), dict(kind='differential', family=fam, configs=list(names)))
        else:
            V.extra.setdefault('logging_differentials', []).append({'family': fam, 'builds': list(names), 'tuples': list(digs.values())[0][1] if digs else 0, 'digest': list(digs.values())[0][0] if digs else ''})
    return V.finish(rule='closure over machine states incl. attachLogger(on/off) and "attached at construction"; every edge is checked record by record; the behaviour digest (all edges with logger records removed) is compared across logging-off / logging / verbose builds')

# =========================================================================== C18
SAN = ('asan-gcc', 'asan-clang', 'msan')
SAN_O0 = 'asan-gcc-O0'   # unoptimised: reference bindings and loads the optimiser would fold away stay visible to UBSan
@vc.custom('C18')
def check_c18(tier):
    V = Verdict('C18', tier)
    V.assumptions = ['histories respect the asserted preconditions of the library (DESIGN.md 4.3)', 'sanitizers: g++ 12 and clang 14 ASan+UBSan (no recovery), clang 14 MSan with the instance storage poisoned before construction; allocation entry points are wrapped/replaced and counted while a library call is on the stack']
    # (config, deviation bound plain build, deviation bound sanitizer builds, menus, operations)
    base = [('P8c', 0, 0, M_P0, og('CORE', 'PLAN', 'REPORT'), ('asan-clang',)), ('N8p', 0, 0, M_P0, O_P, ('asan-gcc', 'asan-clang'), ['--ids=0,7']), ('T1', 1, 1, M_T, O_T, ('msan', 'asan-gcc'), ['--copy', '--copy-move']), ('P5', 0, 0, M_P0, O_P, ('msan',), ['--copy', '--copy-move']), ('T9a', 1, 1, M_TP, O_T | og('PAYLOAD')), ('T9b', 1, 1, M_TP, O_T | og('PAYLOAD', 'SERIAL')), ('P7a', 1, 0, M_P0 | mf('PAYLOAD'), O_P | og('PAYLOAD')), ('P7b', 0, 0, M_P0 | mf('PAYLOAD'), O_P | og('PAYLOAD'), ('asan-gcc', 'msan')), ('T2', 1, 1, M_TP, O_TALL), ('T5', 1, 1, M_TP, O_TALL), ('T6', 1, 1, M_TP, O_TALL), ('P5', 1, 1, M_P, O_P | og('PLAN_REMOVE', 'COPY', 'DESTROY', 'REACT')), ('P7', 1, 0, M_P0 | mf('PAYLOAD'), O_P | og('PAYLOAD')), ('P3', 2, 1, M_P, O_PALL), ('T3', 2, 2, M_T, O_TALL), ('A2', 1, 0, mf('PHASE_REQ', 'GUARD_CANCEL', 'REPORT', 'PLAN_EDIT', 'PAYLOAD'), og('CORE', 'PLAN', 'REPORT', 'MANUAL', 'SERIAL', 'REPLAY', 'COPY', 'DESTROY', 'PAYLOAD', 'LOG'))]
    if tier == 'thorough': base = [b for b in base if b[0] in ('P8c', 'A2', 'T9a', 'T9b', 'P7a', 'P7b', 'N8p') or len(b) > 6] + [('T2', 2, 2, M_TP, O_TALL), ('T5', 2, 1, M_TP, O_TALL), ('T6', 2, 2, M_TP, O_TALL), ('T1', 2, 2, M_T, O_TALL), ('P5', 2, 1, M_PG, O_PALL), ('P7', 1, 1, M_P | mf('PAYLOAD'), O_PALL), ('P3', 3, 2, M_P, O_PALL), ('T3', 3, 3, M_T, O_TALL), ('P2', 1, 0, M_P0 | mf('PAYLOAD'), O_P | og('PAYLOAD', 'MANUAL', 'REPLAY')), ('T4', 1, 1, M_T, O_TALL), ('I1', 1, 1, M_T, O_T), ('P4', 0, 0, M_P0 | mf('PAYLOAD'), O_P | og('PAYLOAD'))]
    specs = []
    for bt in base:
        (c, d, ds, m, o) = bt[:5]; only = bt[5] if len(bt) > 5 else None      # `only`: a large configuration that runs under the named sanitizer builds only
        fl = bt[6] if len(bt) > 6 else (['--copy', '--replica'] if (c in ('T2', 'P3', 'T3', 'T5') or tier == 'thorough') else [])   # companions (copies, replicas) run under the sanitizers too
        specs.append(S(c, d, m, o, variant='plain', flags=fl, props=['C18']))     # alignment + allocation monitors, full speed
        for v in (only or SAN):
            specs.append(S(c, ds, m, o, variant=v, flags=fl, props=['C18'], share=3 if v == 'msan' else 1))
        if (c in ('T2', 'P3', 'P5', 'T3') or tier == 'thorough') and not only:
            specs.append(S(c, min(ds, 1) if tier == 'quick' else ds, m, o, variant=SAN_O0, flags=fl, props=['C18'], share=2))
    vc.run_specs(V, specs, tier, budget=200 if tier == 'quick' else 3600)
    # containers and the extreme machine sizes under ASan+UBSan
    jobs = []
    for v in ('asan-gcc', 'asan-clang'):
        jobs.append((('seqx_bitstream.cpp', []), dict(variant=v, access=False, extra=['-w']), 'bitstream', ['--workers=%d' % NCPU, '--skip-bitwidth']))
        jobs.append((('seqx_containers.cpp', ['VX_PART=3']), dict(variant=v, extra=['-w']), 'tasklist', ['--what=tasklist', '--workers=%d' % NCPU]))
        jobs.append((('seqx_containers.cpp', ['VX_PART=1', 'VX_CLO=1', 'VX_CHI=40']), dict(variant=v, extra=['-w']), 'bitarray', ['--what=bitarray', '--workers=%d' % NCPU]))
        # a task capacity below the state count: indices into the per-state plan bit sets checked against the member arrays' own bounds (g++ bounds-strict sees inside the object)
        for n in ((10,) if tier == 'quick' else (9, 10, 17, 65)):
            jobs.append((('sweepx_n.cpp', ['VX_NSTATES=%d' % n, 'VX_HEAD=1', FEAT['PLANS'], 'VX_TASKCAP=4']), dict(variant=v, access=False, extra=['-w', '-ftemplate-depth=2048'] + (['-fsanitize=bounds-strict'] if v == 'asan-gcc' else [])), 'sweep N=%d plans capacity 4' % n, []))
        if v == 'asan-clang': jobs.append((('sweepx_n.cpp', ['VX_NSTATES=250', 'VX_HEAD=1', FEAT['PLANS']]), dict(variant=v, access=False, extra=['-w', '-ftemplate-depth=2048', '-g0']), 'sweep N=250 plans', []))
        for n in ((1, 2, 128, 255) if tier == 'quick' else (1, 2, 3, 9, 64, 127, 128, 129, 255)):
            if tier == 'quick' and n == 255 and v != 'asan-gcc': continue
            jobs.append((('sweepx_n.cpp', ['VX_NSTATES=%d' % n, 'VX_HEAD=0', 'VX_MANUAL=1', FEAT['SER']]), dict(variant=v, access=False, extra=['-w', '-ftemplate-depth=2048'] + (['-g0'] if n > 100 else [])), 'sweep N=%d' % n, []))
    built = build_many([(j[0], j[1]) for j in jobs])
    for (a, kw, what, args), (b, err) in zip(jobs, built):
        if err: raise BuildFailed(err)
        add_seqx(V, run_harness(b, args), '%s/%s' % (what, kw['variant']), dict(source=a[0], defs=a[1], variant=kw['variant'], access=kw.get('access', True), args=[x for x in args if x.startswith('--what')]))
    V.violations = [v for v in V.violations if v['pred'] in ('sanitizer-report', 'crash', 'payload-pointer-misaligned', 'task-payload-pointer-misaligned', 'heap-allocation') or 'sanitizer' in v['pred']]
    return V.finish(rule='the explorations of the other checks repeated in three sanitizer builds plus a plain build with the allocation and pointer-alignment monitors; a sanitizer report aborts the run and is attributed to the edge in flight')

# =========================================================================== C19
SWITCHES = ['FFSM2_ENABLE_PLANS', 'FFSM2_ENABLE_SERIALIZATION', 'FFSM2_ENABLE_TRANSITION_HISTORY', 'FFSM2_ENABLE_LOG_INTERFACE', 'FFSM2_ENABLE_VERBOSE_DEBUG_LOG', 'FFSM2_ENABLE_STRUCTURE_REPORT', 'FFSM2_ENABLE_DEBUG_STATE_TYPE', 'FFSM2_DISABLE_TYPEINDEX']
WARN = ['-Werror', '-Wall', '-Wextra', '-Wpedantic', '-Wshadow', '-Wold-style-cast']

def probe_build_run(combo, std, cxx, header):
    defs = ['-D%s=' % s for s in combo] + (['-DVX_DEV_HEADER'] if header == 'dev' else [])
    src = os.path.join(PROBES, 'c19_probe.cpp')
    key = hashlib.sha1(json.dumps([repo_fingerprint(), open(src).read(), combo, std, cxx, header]).encode()).hexdigest()[:18]
    out = os.path.join(BUILD, 'c19_' + key)
    cmd = [cxx, '-std=' + std, '-O0'] + WARN + ['-I' + os.path.join(REPO, 'include'), '-I' + os.path.join(REPO, 'development')] + defs + [src, '-o', out]
    if not os.path.exists(out):
        p = subprocess.run(cmd, stdout=subprocess.PIPE, stderr=subprocess.STDOUT, text=True)
        if p.returncode != 0:
            return dict(ok=False, cmd=' '.join(cmd), output=p.stdout[-2500:], first=([l for l in p.stdout.splitlines() if 'error' in l] or [''])[0][:400])
    try:
        p = subprocess.run([out], stdout=subprocess.PIPE, stderr=subprocess.STDOUT, text=True, timeout=120)
        so = p.stdout; prc = p.returncode
    except subprocess.TimeoutExpired:
        so = ''; prc = -9
    m = re.search(r'C19-DIGEST (\w+)', so)
    try: os.unlink(out)
    except OSError: pass
    return dict(ok=True, digest=m.group(1) if m else 'rc=%d' % prc, cmd=' '.join(cmd))

@vc.custom('C19')
def check_c19(tier):
    V = Verdict('C19', tier)
    V.assumptions = ['switches are defined empty (-DFFSM2_ENABLE_X=), as the documentation and the tests do (DESIGN.md O8)', 'compilers: g++ 12 and clang++ 14; MSVC-only paths are not compiled']
    combos = [tuple(s for i, s in enumerate(SWITCHES) if (m >> i) & 1) for m in range(256)] + [('FFSM2_ENABLE_ALL',)]
    axes = []
    if tier == 'quick':
        for c in combos: axes.append((c, 'c++11', 'g++', 'shipped'))
        corners = [combos[0], combos[255], combos[256], combos[0b00101111], combos[0b00000110]]
        for c in corners:
            for std in ('c++14', 'c++17', 'c++20'):
                for cxx in ('g++', 'clang++'): axes.append((c, std, cxx, 'shipped'))
            axes.append((c, 'c++11', 'clang++', 'shipped')); axes.append((c, 'c++11', 'g++', 'dev')); axes.append((c, 'c++20', 'clang++', 'dev'))
    else:
        for c in combos:
            for std in ('c++11', 'c++14', 'c++17', 'c++20'):
                for cxx in ('g++', 'clang++'):
                    for h in ('shipped', 'dev'): axes.append((c, std, cxx, h))
    with ThreadPoolExecutor(max_workers=NCPU) as ex:
        res = list(ex.map(lambda a: probe_build_run(*a), axes))
    fails = [(a, r) for a, r in zip(axes, res) if not r['ok']]
    digests = {}
    for a, r in zip(axes, res):
        if r['ok']: digests.setdefault(r['digest'], []).append(a)
    V.transitions += len(axes); V.validated += len(axes) - len(fails); V.states += len(digests) or 1
    V.extra['builds'] = len(axes); V.extra['build_failures'] = len(fails); V.extra['distinct_behaviour_digests'] = len(digests)
    V.samples.append({'build': ' '.join(axes[-1][0]) or '(no switches)', 'std': axes[-1][1], 'compiler': axes[-1][2], 'header': axes[-1][3], 'digest': res[-1].get('digest')})
    if fails:
        # group by first error line
        groups = {}
        for a, r in fails: groups.setdefault(r['first'], []).append(a)
        for first, al in groups.items():
            a0 = al[0]
            V.add_violation('combination-does-not-compile', '%d of %d builds fail, e.g. [%s] %s %s %s: %s' % (len(al), len(axes), ' '.join(a0[0]), a0[1], a0[2], a0[3], first), dict(kind='c19', combo=list(a0[0]), std=a0[1], cxx=a0[2], header=a0[3], failing=[[' '.join(x[0]), x[1], x[2], x[3]] for x in al[:40]]), count=len(al))
    if len(digests) > 1:
        maj = max(digests.values(), key=len)
        for dg, al in digests.items():
            if al is maj: continue
            a0 = al[0]
            V.add_violation('unused-feature-changes-behaviour', '%d builds behave differently from the majority, e.g. [%s] %s %s %s (digest %s)' % (len(al), ' '.join(a0[0]), a0[1], a0[2], a0[3], dg), dict(kind='c19', combo=list(a0[0]), std=a0[1], cxx=a0[2], header=a0[3]), count=len(al))
    # exhaustive behaviour comparison on the explorer for the feature subsets (g++, c++17): neutral digests must coincide
    sub = [(), ('PLANS',), ('SER',), ('HIST',), ('LOG',), ('VERBOSE',), ('STRUCT', 'DBGTYPE'), ('NOTYPEINDEX',), ('PLANS', 'HIST', 'LOG'), ('SER', 'HIST'), ('PLANS', 'SER'), ('PLANS', 'SER', 'HIST', 'VERBOSE', 'STRUCT', 'DBGTYPE', 'NOTYPEINDEX')]
    if tier == 'thorough': sub = [tuple(f for i, f in enumerate(('PLANS', 'SER', 'HIST', 'LOG', 'VERBOSE', 'STRUCT', 'DBGTYPE', 'NOTYPEINDEX')) if (m >> i) & 1) for m in range(256)]
    bases = [dict(N=3, HEAD=1, L=2, CTX=1), dict(N=2, HEAD=0, MANUAL=1, PAYLOAD=4, L=2, CTX=2)]
    # "a program that uses the features in U": the digest then includes what U lets it observe (previousTransition, plan contents, saved bytes)
    # and the alphabet includes U's operations; every build whose feature set contains U must behave identically for that program.
    USES = [((), 1, 0, 0), (('HIST',), 3, og('REPLAY'), 0), (('PLANS',), 5, og('PLAN', 'REPORT'), mf('REPORT', 'PLAN_EDIT')), (('SER',), 9, og('SERIAL'), 0), (('PLANS', 'HIST'), 7, og('PLAN', 'REPORT', 'REPLAY'), mf('REPORT', 'PLAN_EDIT'))]
    for bi, base in enumerate(bases):
        hv = (['shipped', 'dev'] if tier == 'thorough' or not headers_identical() else ['shipped'])
        jobs = [(f, h) for h in hv for f in sub]
        built = dict(zip(jobs, build_many([((('fsmx.cpp'), cfg(feats=f, CAP=(2 if 'PLANS' in f else 0), **base)), dict(header=h)) for f, h in jobs])))
        for U, mask, ogx, mfx in USES:
            if bi == 0 and U and U != ('PLANS',): continue           # history / serialization programs need the manually activated base (exit, replayEnter, load inactive)
            group = [(f, h) for (f, h) in jobs if set(U) <= set(f)]
            if tier == 'thorough' and U: group = [g for g in group if len(g[0]) <= len(U) + 1 or len(g[0]) >= 7]   # U, U+one more, nearly all
            nd = {}; incomplete = False
            def runone(fh):
                b, err = built[fh]
                if err: return (fh, None, err)
                f, h = fh
                return (fh, run_fsmx(b, 'F%d[%s]/%s/uses[%s]' % (bi, '+'.join(f), h, '+'.join(U)), ['C19'] + ([] if U else ['C17']), (0 if 'PLANS' in U else 1), (M_TP if base.get('PAYLOAD') else M_T) | mfx, O_T | og('PAYLOAD', 'MANUAL') | ogx, workers=1, flags=['--neutral=%d' % mask, '--no-fresh'] + ([] if U else ['--copy', '--copy-move', '--copy-dev=0']), deadline=150 if tier == 'quick' else 500, samples=1), None)
            with ThreadPoolExecutor(max_workers=NCPU) as ex:
                outs = list(ex.map(runone, group))
            for (f, h), run, err in outs:
                if err:
                    if not U:
                        lines = [l for l in err.splitlines() if 'error' in l][:1]
                        V.add_violation('combination-does-not-compile', 'explorer harness with [%s] (%s header): %s' % (' '.join(f), h, (lines[0] if lines else err[-300:])[:400]), dict(kind='build', feats=list(f), header=h, output=err[-2500:]))
                    continue
                rs = dict(S('F', 1, 0, 0)); rs['header'] = h
                V.add_fsmx(run, 'F%d' % bi, cfg(feats=f, CAP=(2 if 'PLANS' in f else 0), **base), rs)
                if run['result']:
                    nd[(f, h)] = (run['result']['neutral_digest'], run['result']['neutral_tuples'])
                    if not run['result']['exhaustive']: incomplete = True
            if incomplete:
                V.caps.append('feature differential for programs using [%s] skipped: a run did not complete' % ' '.join(U)); V.exhaustive = False
            elif len(set(nd.values())) > 1:
                ref = nd.get((tuple(U), 'shipped')) or list(nd.values())[0]
                odd = [k for k, v in nd.items() if v != ref][:5]
                V.add_violation('unused-feature-changes-behaviour', 'explorer: a program that uses [%s] behaves differently when further, unused features are enabled: %s differ from [%s] (digests %s)' % (' '.join(U) or 'no feature', [(' '.join(k[0]), k[1]) for k in odd], ' '.join(U), sorted(set(nd.values()))), dict(kind='differential', base=base, uses=list(U), odd=[[list(k[0]), k[1]] for k in odd]))
            else:
                V.extra.setdefault('explorer_feature_differentials', []).append({'base': base, 'program_uses': list(U), 'builds_compared': len(nd), 'tuples': list(nd.values())[0][1] if nd else 0})
    # C++20: a machine's whole life cycle can be evaluated in a constant expression; compiling in a feature the program does not use
    # must not take that away (builds whose machine holds a std::type_index are not literal types at all and are left out)
    def cx_one(args):
        combo, cxx, h = args
        src = os.path.join(PROBES, 'probe_constexpr.cpp')
        key = hashlib.sha1(json.dumps([repo_fingerprint(), open(src).read(), combo, cxx, h]).encode()).hexdigest()[:18]
        out = os.path.join(BUILD, 'cx_' + key)
        cmd = [cxx, '-std=c++20', '-I' + os.path.join(REPO, 'include'), '-I' + os.path.join(REPO, 'development')] + ['-D%s=' % x for x in combo] + (['-DVX_DEV_HEADER'] if h == 'dev' else []) + [src, '-o', out]
        p = subprocess.run(cmd, stdout=subprocess.PIPE, stderr=subprocess.STDOUT, text=True)
        if p.returncode != 0: return (args, 'does not compile: ' + ([l for l in p.stdout.splitlines() if 'error' in l] or [''])[0][:300], ' '.join(cmd))
        try: q = subprocess.run([out], stdout=subprocess.PIPE, stderr=subprocess.STDOUT, text=True, timeout=60); res = q.stdout.strip()
        except subprocess.TimeoutExpired: res = 'timeout'
        try: os.unlink(out)
        except OSError: pass
        return (args, res, ' '.join(cmd))
    literal = [c for c in combos[:256] if 'FFSM2_DISABLE_TYPEINDEX' in c or not (set(c) & {'FFSM2_ENABLE_LOG_INTERFACE', 'FFSM2_ENABLE_VERBOSE_DEBUG_LOG', 'FFSM2_ENABLE_STRUCTURE_REPORT', 'FFSM2_ENABLE_DEBUG_STATE_TYPE'})]
    if tier == 'quick': literal = [c for c in literal if not (set(c) & {'FFSM2_ENABLE_STRUCTURE_REPORT', 'FFSM2_ENABLE_DEBUG_STATE_TYPE'}) or len(c) >= 7]
    cxjobs = [(c, 'g++', 'shipped') for c in literal] + [(c, 'clang++', 'shipped') for c in literal if len(c) <= 1 or len(c) >= 7] + ([(c, 'g++', 'dev') for c in literal if len(c) <= 1] if not headers_identical() or tier == 'thorough' else [])
    with ThreadPoolExecutor(max_workers=NCPU) as ex: cxres = list(ex.map(cx_one, cxjobs))
    V.transitions += len(cxres); V.validated += len(cxres)
    base_cx = {(cxx, h): r for (c, cxx, h), r, cmd in cxres if c == ()}
    oddcx = [((c, cxx, h), r, cmd) for (c, cxx, h), r, cmd in cxres if r != base_cx.get((cxx, h), base_cx.get(('g++', 'shipped')))]
    if oddcx:
        (c, cxx, h), r, cmd = oddcx[0]
        V.add_violation('unused-feature-changes-constant-evaluation', 'C++20 constant evaluation of a machine life cycle: [%s] %s %s gives "%s", without any switch "%s" (%d of %d builds differ)' % (' '.join(c), cxx, h, r[:200], base_cx.get((cxx, h), '?'), len(oddcx), len(cxres)), dict(kind='probe', source='probe_constexpr.cpp', cmd=cmd, output=r), count=len(oddcx))
    else:
        V.extra['constexpr_probe'] = {'builds': len(cxres), 'result': sorted(set(r for _, r, _ in cxres))}
    # the development header behaves like the single header: full edge digests of explorations (incl. injections) through both
    hd = {}
    for cname, d_, m_, o_ in (('T1', 1, M_T, O_T), ('I1', 1, M_T, O_T), ('I5', 1, M_T, O_T), ('P5', 1, M_P0, O_P), ('T2', 1, M_TP, O_TALL)):
        for h in ('shipped', 'dev'):
            b = build('fsmx.cpp', CONFIGS[cname], header=h)
            run = run_fsmx(b, '%s/%s/header-diff' % (cname, h), ['C19'], d_, m_, o_, workers=NCPU, deadline=100, samples=0)
            rs = dict(S(cname, d_, m_, o_)); rs['header'] = h
            V.add_fsmx(run, cname, CONFIGS[cname], rs)
            if run['result'] and run['result']['exhaustive']: hd[(cname, h)] = (run['result']['digest'], run['result']['states'], run['result']['transitions'])
        if (cname, 'shipped') in hd and (cname, 'dev') in hd and hd[(cname, 'shipped')] != hd[(cname, 'dev')]:
            V.add_violation('header-variants-behave-differently', 'configuration %s explored through include/ffsm2/machine.hpp and through development/ffsm2/machine_dev.hpp: (digest, states, edges) %s vs %s' % (cname, hd[(cname, 'shipped')], hd[(cname, 'dev')]), dict(kind='differential', config=cname))
    # large machines: a feature that is compiled in but not used (PLANS, HISTORY) must leave the dispatch sweep and the user data kept in
    # the state objects untouched (the sweeps with these switches also use the feature afterwards; any deviation is reported here)
    before = len(V.violations)
    sweep(V, tier, ['root-auto-plans', 'root-auto-hist'], 200 if tier == 'quick' else 900, ns=[9, 250, 255] if tier == 'quick' else [2, 9, 17, 65, 129, 249, 250, 254, 255])
    for v in V.violations[before:]: v['pred'] = 'unused-feature-changes-behaviour'
    # the shipped header is exactly the amalgamation of the development sources
    try:
        am = amalgamate(); sh = shipped_header_text()
        same = am == sh
        V.transitions += 1; V.validated += 1
        if not same:
            al, sl = am.splitlines(), sh.splitlines(); i = 0
            while i < min(len(al), len(sl)) and al[i] == sl[i]: i += 1
            V.add_violation('shipped-header-differs-from-sources', 'include/ffsm2/machine.hpp is not what tools/join.py produces from development/: first difference at line %d: shipped "%s" vs sources "%s"' % (i + 1, (sl[i] if i < len(sl) else '<eof>')[:120], (al[i] if i < len(al) else '<eof>')[:120]), dict(kind='amalgamation', line=i + 1))
        V.extra['amalgamation_identical'] = same
    except Exception as e:
        V.add_violation('amalgamation-failed', 'tools/join.py logic could not amalgamate the development sources: %s' % e, dict(kind='amalgamation'))
    return V.finish(rule='every switch combination x standards x compilers x header variants of a feature-neutral public-API program is built with the project warning flags and run; all behaviour digests must be equal; on the explorer the complete d<=1 edge sets of a feature-neutral alphabet are compared across feature subsets; amalgamation compared byte for byte')

# configuration-chain probe for the explorer-driven checks whose quantifier names the setting

vc.POST_HOOKS['C02'] = lambda V, tier: config_chain(V, {'limit', 'activation'})
vc.POST_HOOKS['C04'] = lambda V, tier: config_chain(V, {'limit'})
vc.POST_HOOKS['C06'] = lambda V, tier: config_chain(V, {'context'})
vc.POST_HOOKS['C07'] = lambda V, tier: config_chain(V, {'payload'})

# large machines for the explorer-driven properties whose quantifier names the machine size: the dispatch / plan / replay sweeps
def _big_sweep(V, tier, flavours, ns, keep):
    before = len(V.violations)
    sweep(V, tier, flavours, 200 if tier == 'quick' else 900, ns=ns)
    V.violations = V.violations[:before] + [v for v in V.violations[before:] if re.search(keep, v['pred'] + ' ' + v['text'])]
_old05 = vc.POST_HOOKS.get('C05')
vc.POST_HOOKS['C05'] = lambda V, tier: _big_sweep(V, tier, ['root-auto'], [8, 17, 128, 129, 255] if tier == 'quick' else [8, 16, 17, 33, 64, 65, 127, 128, 129, 130, 200, 254, 255], r'dispatch-phase|state-data')
# C01 on machines beyond the explorer's eight states: every ordered pair (j,k) of a transition, manual enter/exit and load() deliver exit(j) / enter(k) to exactly those states
vc.POST_HOOKS['C01'] = lambda V, tier: (config_chain(V, {'activation'}), ctor_forms(V), _big_sweep(V, tier, ['root-auto', 'peer-manual-ser'], [9, 17, 40] if tier == 'quick' else [9, 10, 16, 17, 33, 64, 65, 129, 255], r'^(dispatch|dispatch-activity|load-lifecycle|load-activity|initial-state) '))
def _cap_sweep(V, tier, keep): _big_sweep(V, tier, ['root-auto-plans-cap4'], [9, 17] if tier == 'quick' else [5, 9, 10, 17, 65, 255], keep)
vc.POST_HOOKS['C08'] = lambda V, tier: _big_sweep(V, tier, ['root-auto-plans', 'peer-auto-plans'] if tier == 'thorough' else ['root-auto-plans'], [9, 65, 250, 255] if tier == 'quick' else [2, 8, 9, 16, 17, 64, 65, 128, 129, 248, 249, 250, 254, 255], r'plan|state-data') or _cap_sweep(V, tier, r'plan|state-data')
vc.POST_HOOKS['C09'] = lambda V, tier: _big_sweep(V, tier, ['root-auto-plans'], [9, 65, 250, 255] if tier == 'quick' else [2, 8, 9, 16, 17, 64, 65, 128, 129, 248, 249, 250, 254, 255], r'plan|outcome|state-data') or _cap_sweep(V, tier, r'plan|outcome|state-data')
