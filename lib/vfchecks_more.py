"""vfchecks_more -- checks that are not plain fsmx explorations (registered into vfchecks.CUSTOM)."""
import vfchecks as vc
from vflib import *
