#!/bin/bash
# regress_seeded.sh [tier] -- re-runs the check of every seeded change against it (scratch worktree per change), three at a time;
# results in seeded/_regress/<id>.json, one summary line each in seeded/_regress/summary.txt
cd /verif; tier=${1:-quick}; mkdir -p seeded/_regress; : > seeded/_regress/summary.txt
run() { id=$1; p=${id%-*}; out=$(python3 tools/try_mutant.py seeded/$id/patch.diff seeded/$id/demo.cpp seeded/_regress/$id.json $p --tier $tier --checks-only 2>&1 | grep "^$p:" | cut -c1-160); echo "$id $out" >> seeded/_regress/summary.txt; }
ids=$(ls seeded | grep -E '^C[0-9]+-[0-9]+$')
n=0
for id in $ids; do run $id & n=$((n+1)); if [ $((n % 3)) -eq 0 ]; then wait; fi; done; wait
echo ALL-DONE >> seeded/_regress/summary.txt
