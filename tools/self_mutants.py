#!/usr/bin/env python3
"""self_mutants.py [name ...] -- a corpus of hand-written single-edit changes to FFSM2 (DESIGN.md 6, "detection demonstration").
Each is applied to a scratch worktree of /repo (development source edited, single header regenerated with tools/join.py),
the pinned tests are run, and the quick tier of the named checks is run with VERIF_REPO=<scratch>. Prints one line per mutant.
Results are appended to /verif/findings/self_mutants.jsonl."""
import sys, os, subprocess, json, shutil, time

D = 'development/ffsm2/detail/'
MUTANTS = [
 # name, file, old, new, checks expected to catch it
 ('guards-no-short-circuit', D + 'root_0.inl', '''	return _apex.deepForwardExitGuard (guardControl) ||
		   _apex.deepForwardEntryGuard(guardControl);''', '''	return _apex.deepForwardExitGuard (guardControl) |
		   _apex.deepForwardEntryGuard(guardControl);''', ['C03']),
 ('substitution-loop-off-by-one', D + 'root_0.inl', '''		i < SUBSTITUTION_LIMIT && _core.request;
		++i)
	{
		//backup();

		if (applyRequest(currentTransition,
						 _core.request.destination))
		{
			pendingTransition = _core.request;
			_core.request.clear();

			if (cancelledByGuards(''', '''		i <= SUBSTITUTION_LIMIT && _core.request;
		++i)
	{
		//backup();

		if (applyRequest(currentTransition,
						 _core.request.destination))
		{
			pendingTransition = _core.request;
			_core.request.clear();

			if (cancelledByGuards(''', ['C04']),
 ('first-request-wins', D + 'root/control_3.inl', '''	if (!_locked) {
		_core.request = Transition{_originId, stateId_};''', '''	if (!_locked && !_core.request) {
		_core.request = Transition{_originId, stateId_};''', ['C02']),
 ('post-phase-order-swapped', D + 'structure/composite.inl', '''	FFSM2_IF_PLANS( subStatus	 (control) |=)
		SubStates::widePostUpdate(control, active);

	FFSM2_IF_PLANS(const TaskStatus h =)
		HeadState::deepPostUpdate(control);
	FFSM2_IF_PLANS(headStatus	 (control) |= h);''', '''	FFSM2_IF_PLANS(const TaskStatus h =)
		HeadState::deepPostUpdate(control);
	FFSM2_IF_PLANS(headStatus	 (control) |= h);

	FFSM2_IF_PLANS( subStatus	 (control) |=)
		SubStates::widePostUpdate(control, active);''', ['C05']),
 ('exit-keeps-task-status', D + 'structure/state_1.inl', '''	Head::wideExit(control);

	FFSM2_IF_PLANS(control._core.planData.clearTaskStatus(STATE_ID));''', '''	Head::wideExit(control);
''', ['C08', 'C09']),
 ('fired-task-not-removed', D + 'root/control_3.inl', '''				else
					successesToClear.clear(it->origin);

				it.remove();
			}
		}

		_core.planData.tasksSuccesses &= successesToClear;
	} else {
		_taskStatus.result = TaskStatus::SUCCESS;
		headState.wrapPlanSucceeded(*this);

		plan().clear();
	}
	}
}

#endif

//------------------------------------------------------------------------------
// COMMON''', None, ['C08']),
 ('capacity-off-by-one', D + 'root/plan_1.inl', '''	if (_planData.tasks.count() < TASK_CAPACITY) {
		_planData.planExists = true;''', '''	if (_planData.tasks.count() + 1 < TASK_CAPACITY) {
		_planData.planExists = true;''', ['C10']),
 ('prong-bound-off-by-one', D + 'structure/composite_sub_1.hpp', '''	static constexpr Prong	  R_PRONG	  = PRONG_INDEX + sizeof...(TStates) / 2;''', '''	static constexpr Prong	  R_PRONG	  = PRONG_INDEX + (sizeof...(TStates) + (sizeof...(TStates) > 16 ? 1 : 0)) / 2;''', ['C14']),
 ('save-drops-activity-bit-for-last-state', D + 'structure/composite.inl', '''	stream.template write<WIDTH_BITS>(registry.active);''', '''	stream.template write<WIDTH_BITS>(registry.active == WIDTH - 1 && WIDTH > 2 ? static_cast<Prong>(registry.active - 1) : registry.active);''', ['C12']),
 ('log-after-callback', D + 'structure/state_1.inl', '''	FFSM2_LOG_STATE_METHOD(&Head::enter,
						   Method::ENTER);

	ScopedOrigin origin{control, STATE_ID};

	Head::wideEnter(control);
	Head::	  enter(control);''', '''	ScopedOrigin origin{control, STATE_ID};

	Head::wideEnter(control);
	Head::	  enter(control);

	FFSM2_LOG_STATE_METHOD(&Head::enter,
						   Method::ENTER);''', ['C16']),
 ('reenter-delivered-as-enter', D + 'structure/composite.inl', '''		// reconstruction done in S_::reenter()
		SubStates::wideReenter(control, active);''', '''		// reconstruction done in S_::reenter()
		SubStates::wideEnter(control, active);''', ['C01', 'C02']),
 ('control-origin-not-restored', D + 'root/control_1.inl', '''ControlT<TArgs>::Origin::~Origin() noexcept {
	control._originId = prevId;
}''', '''ControlT<TArgs>::Origin::~Origin() noexcept {
}''', ['C06']),
 ('payload-flag-lost-on-accept', D + 'root_0.inl', '''			if (cancelledByGuards(currentTransition,
								  pendingTransition))
				;
			else
				currentTransition = pendingTransition;''', '''			if (cancelledByGuards(currentTransition,
								  pendingTransition))
				;
			else {
				currentTransition = pendingTransition;
				if (i) currentTransition.method = Method::NONE, currentTransition = Transition{pendingTransition.origin, pendingTransition.destination};
			}''', ['C07']),
 ('history-keeps-stale-on-veto', D + 'root_0.inl', '''	FFSM2_IF_TRANSITION_HISTORY(_core.previousTransition = currentTransition);
}''', '''	FFSM2_IF_TRANSITION_HISTORY(if (currentTransition) _core.previousTransition = currentTransition);
}''', ['C11']),
 ('injection-post-order-forward', D + 'structure/ancestors_1.inl', '''A_<TF_, TR_...>::widePostUpdate(FullControl& control) noexcept {
	Rest ::widePostUpdate(control);
	First::	   postUpdate(control);''', '''A_<TF_, TR_...>::widePostUpdate(FullControl& control) noexcept {
	First::	   postUpdate(control);
	Rest ::widePostUpdate(control);''', ['C15']),
 ('copy-drops-request', D + 'root/core.inl', '''	  context {other.context }
	, registry{other.registry}
	, request {other.request }''', '''	  context {other.context }
	, registry{other.registry}''', ['C17']),
 ('bitarray-and-assign-skips-last-unit', D + 'containers/bit_array.inl', '''	for (Index i = 0; i < UNIT_COUNT; ++i)
		_storage[i] &= other._storage[i];''', '''	for (Index i = 0; i + 1 < UNIT_COUNT || i == 0; ++i)
		_storage[i] &= other._storage[i];''', ['C20']),
 ('bitstream-read-mask-wide', D + 'shared/bit_stream.inl', '''		const Short byteChunkMask	= (1 << byteChunkWidth) - 1;''', '''		const Short byteChunkMask	= byteChunkWidth == 7 ? 0xFF : (1 << byteChunkWidth) - 1;''', ['C13']),
 ('plan-failed-keeps-plan', D + 'root/control_3.inl', '''		_taskStatus.result = TaskStatus::FAILURE;
		headState.wrapPlanFailed(*this);

		plan().clear();''', '''		_taskStatus.result = TaskStatus::FAILURE;
		headState.wrapPlanFailed(*this);

		plan().clearTasks();''', ['C09']),
 ('one-sided-header-edit', 'include/ffsm2/machine.hpp', '''		return active == stateId;''', '''		return active == stateId || (stateId == 1 && active == 2);''', ['C19', 'C06']),
 ('unused-feature-perturbs', D + 'root_0.inl', '''R_<TG_, TA_>::changeTo(const StateID stateId_) noexcept {
	FFSM2_ASSERT(_core.registry.isActive());

	_core.request = Transition{stateId_};''', '''R_<TG_, TA_>::changeTo(const StateID stateId_) noexcept {
	FFSM2_ASSERT(_core.registry.isActive());

	FFSM2_IF_SERIALIZATION(if (_core.request && stateId_ == 0) return);
	_core.request = Transition{stateId_};''', ['C19']),
 ('uninitialised-registry-requested', D + 'root/registry.hpp', '''	Short requested	= INVALID_SHORT;''', '''	Short requested;''', ['C18', 'C17']),
]

def sh(cmd, cwd=None, env=None, timeout=3600):
    p = subprocess.run(cmd, shell=True, cwd=cwd, env=env, stdout=subprocess.PIPE, stderr=subprocess.STDOUT, text=True, timeout=timeout)
    return p.returncode, p.stdout

def main():
    want = sys.argv[1:]
    tier = 'quick'
    for name, fil, old, new, checks in MUTANTS:
        if want and name not in want: continue
        if new is None and name == 'fired-task-not-removed':
            # special: drop both it.remove() calls in updatePlan
            pass
        wt = '/tmp/selfmut_%d' % os.getpid()
        sh('git -C /repo worktree add -q --detach %s HEAD' % wt)
        rec = dict(name=name, file=fil, checks={}, when=time.strftime('%Y-%m-%d %H:%M'))
        try:
            p = os.path.join(wt, fil); s = open(p, encoding='utf-8-sig').read()
            if name == 'fired-task-not-removed':
                n = s.count('\t\t\t\t\tit.remove();\n')
                s2 = s.replace('\t\t\t\t\tit.remove();\n', '')
                ok = n == 2
            else:
                ok = s.count(old) >= 1
                s2 = s.replace(old, new)
            if not ok:
                print('%-40s PATTERN NOT FOUND in %s' % (name, fil)); continue
            raw = open(p, 'rb').read(); bom = raw.startswith(b'\xef\xbb\xbf')
            open(p, 'wb').write((b'\xef\xbb\xbf' if bom else b'') + s2.encode('utf-8'))
            if not fil.startswith('include/'):
                rc, o = sh('python3 join.py', cwd=os.path.join(wt, 'tools'))
            rc, o = sh('cmake -S . -B _build -G Ninja >/dev/null 2>&1 && cmake --build _build 2>&1 | tail -5 && ./_build/ffsm2_test | tail -3', cwd=wt)
            rec['tests_pass'] = rc == 0 and 'Status: SUCCESS' in o
            rc, o = sh('git diff', cwd=wt); rec['diff_lines'] = len(o.splitlines())
            env = dict(os.environ); env['VERIF_REPO'] = wt
            summary = []
            for c in checks:
                t0 = time.time(); rc, o = sh('./vf check %s --tier %s' % (c, tier), cwd='/verif', env=env)
                first = ''
                L = o.splitlines()
                for i, l in enumerate(L):
                    if l.startswith('VIOLATION') and i + 1 < len(L): first = L[i + 1].strip()[:160]; break
                rec['checks'][c] = dict(rc=rc, first=first, wall=round(time.time() - t0, 1))
                summary.append('%s:%s' % (c, 'CAUGHT' if rc == 1 else ('MISSED' if rc == 0 else 'ERR%d' % rc)))
            print('%-40s tests_pass=%-5s %s  | %s' % (name, rec['tests_pass'], ' '.join(summary), next((v['first'] for v in rec['checks'].values() if v['first']), '')[:150]))
        finally:
            sh('git -C /repo worktree remove --force %s' % wt); shutil.rmtree(wt, ignore_errors=True)
        os.makedirs('/verif/findings', exist_ok=True)
        open('/verif/findings/self_mutants.jsonl', 'a').write(json.dumps(rec) + '\n')

if __name__ == '__main__':
    main()
