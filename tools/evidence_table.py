#!/usr/bin/env python3
"""evidence_table.py [quick|thorough] -- prints a markdown table of what the evidence files currently say (DESIGN.md sections 9.2 / 9.6);
with a tier name the per-tier copies under evidence/<tier>/ are read"""
import json, glob, os, sys
SUB = sys.argv[1] if len(sys.argv) > 1 else ''

rows = []
for f in sorted(glob.glob(os.path.join(os.path.dirname(os.path.abspath(__file__)), '..', 'evidence', SUB, 'C*.json'))):
    d = json.load(open(f)); c = d['coverage']
    runs = c.get('runs', [])
    bounds = sorted(set(str(r.get('dev_bound')) for r in runs if r.get('dev_bound') is not None))
    rows.append('| %s | %s | %d | %d | %d | %d | %s | %s | %.0f s |' % (d['property_id'], d['tier'], c['states'], c['transitions'], c['traces_validated_against_impl'], c.get('companion_instance_runs', 0), ','.join(bounds) or '-', 'yes' if c.get('exhaustive') else 'no: ' + '; '.join(c.get('caps_hit', []))[:80], d['wall_s']))
print('| property | tier | states | transitions (executed edges / cases) | judged against monitor or model | companion-instance runs | deviation bounds completed | exhaustive within bounds | wall |')
print('|---|---|---|---|---|---|---|---|---|')
print('\n'.join(rows))
