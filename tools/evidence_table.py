#!/usr/bin/env python3
"""prints a markdown table of what the evidence files currently say (used to refresh DESIGN.md section 9.2)"""
import json, glob, os
rows = []
for f in sorted(glob.glob(os.path.join(os.path.dirname(__file__), '..', 'evidence', 'C*.json'))):
    d = json.load(open(f)); c = d['coverage']
    runs = c.get('runs', [])
    bounds = sorted(set(str(r.get('dev_bound')) for r in runs if r.get('dev_bound') is not None))
    rows.append('| %s | %s | %d | %d | %d | %d | %s | %s | %.0f s |' % (d['property_id'], d['tier'], c['states'], c['transitions'], c['traces_validated_against_impl'], c.get('companion_instance_runs', 0), ','.join(bounds) or '-', 'yes' if c.get('exhaustive') else 'no: ' + '; '.join(c.get('caps_hit', []))[:80], d['wall_s']))
print('| property | tier | states | transitions (executed edges / cases) | judged against monitor or model | companion-instance runs | deviation bounds completed | exhaustive within bounds | wall |')
print('|---|---|---|---|---|---|---|---|---|')
print('\n'.join(rows))
