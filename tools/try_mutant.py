#!/usr/bin/env python3
"""try_mutant.py <patch.diff> <demo.cpp> <out.json> <Cxx> [<Cyy> ...] [--tier quick|thorough] [--demo-flags "..."] [--checks-only]

Confirms a seeded change in a scratch worktree of /repo (never in /repo itself) and runs the named checks against it:
  1. the patch applies to the current HEAD of /repo,
  2. the pinned test suite still builds and passes with it,
  3. the demonstration program passes on the clean tree and fails with the change,
  4. each named check is run with VERIF_REPO=<scratch>; its exit status and VIOLATION lines are recorded.
The scratch worktree is removed afterwards."""
import sys, os, subprocess, json, shutil, time, re

def sh(cmd, cwd=None, env=None, timeout=3600):
    p = subprocess.run(cmd, shell=True, cwd=cwd, env=env, stdout=subprocess.PIPE, stderr=subprocess.STDOUT, text=True, timeout=timeout)
    return p.returncode, p.stdout

def main():
    args = sys.argv[1:]
    tier = 'quick'; demo_flags = ''
    if '--tier' in args: i = args.index('--tier'); tier = args[i + 1]; del args[i:i + 2]
    checks_only = '--checks-only' in args
    if checks_only: args.remove('--checks-only')
    if '--demo-flags' in args: i = args.index('--demo-flags'); demo_flags = args[i + 1]; del args[i:i + 2]
    patch, demo, out = args[0], args[1], args[2]; checks = args[3:]
    # a notes file next to the demo may carry the exact compile line: "COMPILE: g++ -std=c++11 -DFFSM2_ENABLE_X ... demo.cpp -o demo"
    notes = os.path.join(os.path.dirname(demo), 'notes' + re.sub(r'\D', '', os.path.basename(demo)) + '.txt')
    if not demo_flags and os.path.exists(notes):
        m = re.search(r'COMPILE:\s*(.+)', open(notes).read())
        if m:
            toks = [t for t in m.group(1).replace('`', ' ').split() if (t.startswith('-std=') or t.startswith('-D') or t.startswith('-f') or t.startswith('-O') or t == '-g' or t.startswith('-pthread'))]
            demo_flags = ' '.join(toks)
            if 'clang++' in m.group(1): demo_flags += ' --CLANG--'
            if '/development' in m.group(1) and 'machine_dev' in open(demo).read(): pass
    wt = '/tmp/mutrepo_%d' % os.getpid()
    res = dict(patch=patch, demo=demo, tier=tier, checks={}, when=time.strftime('%Y-%m-%d %H:%M:%S'))
    rc, o = sh('git -C /repo worktree add -q --detach %s HEAD' % wt)
    if rc: print(o); return 2
    try:
        rc, o = sh('git apply --whitespace=nowarn %s' % os.path.abspath(patch), cwd=wt)
        res['applies'] = rc == 0
        if rc: res['apply_output'] = o[-2000:]; json.dump(res, open(out, 'w'), indent=1); print('patch does not apply:\n' + o[-800:]); return 2
        if not checks_only:
            rc, o = sh('cmake -S . -B _build -G Ninja >/dev/null 2>&1 && cmake --build _build 2>&1 | tail -5 && ./_build/ffsm2_test | tail -3', cwd=wt)
            res['tests_pass_with_change'] = (rc == 0 and 'Status: SUCCESS' in o); res['tests_output'] = o[-600:]
        # demonstration
        for label, inc in ((() if checks_only else (('clean', '/repo'), ('changed', wt)))):
            exe = '/tmp/demo_%s_%d' % (label, os.getpid())
            cxx = 'clang++' if '--CLANG--' in demo_flags else 'g++'
            rc, o = sh('%s -std=c++14 -ftemplate-depth=2048 %s -I%s/include -I%s/development %s -o %s' % (cxx, demo_flags.replace('--CLANG--', ''), inc, inc, os.path.abspath(demo), exe))
            if rc: res['demo_' + label] = 'does not compile: ' + o[-600:]
            else:
                try:
                    rc2, o2 = sh(exe, timeout=120)
                except subprocess.TimeoutExpired:
                    rc2, o2 = -9, 'TIMEOUT'
                res['demo_' + label] = dict(rc=rc2, output=o2[-500:])
            if os.path.exists(exe): os.unlink(exe)
        env = dict(os.environ); env['VERIF_REPO'] = wt
        for c in checks:
            t0 = time.time()
            rc, o = sh('./vf check %s --tier %s' % (c, tier), cwd='/verif', env=env, timeout=7200)
            viol = [l for l in o.splitlines() if l.startswith('VIOLATION')]
            detail = []
            lines = o.splitlines()
            for i, l in enumerate(lines):
                if l.startswith('VIOLATION') and i + 1 < len(lines): detail.append(lines[i + 1].strip()[:400])
            res['checks'][c] = dict(rc=rc, detected=(rc == 1 and len(viol) > 0), violations=len(viol), first=detail[:3], wall_s=round(time.time() - t0, 1), tail=o[-300:] if rc not in (0, 1) else '')
            print('%s: rc=%d violations=%d %s' % (c, rc, len(viol), (detail[0][:200] if detail else '')))
    finally:
        sh('git -C /repo worktree remove --force %s' % wt)
        shutil.rmtree(wt, ignore_errors=True)
    json.dump(res, open(out, 'w'), indent=1)
    print('tests_pass_with_change=%s demo_clean=%s demo_changed=%s' % (res.get('tests_pass_with_change'), res.get('demo_clean'), str(res.get('demo_changed'))[:200]))
    return 0

if __name__ == '__main__':
    sys.exit(main())
