#!/usr/bin/env python3
"""run_spec.py <Cxx> <cfg> <dev> <mf names,...> <og names,...> [flags...] -- run one exploration and print its witnesses (debug aid)"""
import sys, os, json
sys.path.insert(0, os.path.join(os.path.dirname(os.path.abspath(__file__)), '..', 'lib'))
from vflib import *
import vfchecks as vc
prop, cfgname, dev = sys.argv[1], sys.argv[2], int(sys.argv[3])
mfv = mf(*[x for x in sys.argv[4].split(',') if x]); ogv = og(*[x for x in sys.argv[5].split(',') if x])
flags = sys.argv[6:]
variant = 'plain'
for f in list(flags):
    if f.startswith('variant='): variant = f.split('=')[1]; flags.remove(f)
b = build('fsmx.cpp', vc.CONFIGS[cfgname], variant=variant)
r = run_fsmx(b, cfgname, ['C%02d' % int(prop[1:])], dev, mfv, ogv, workers=NCPU, flags=flags, deadline=600)
res = r['result']
if not res: print(r['stderr'][-3000:]); sys.exit(2)
print({k: v for k, v in res.items() if k not in ('witnesses', 'samples', 'predicates')})
print(res['predicates'])
seen = set()
for w in res['witnesses']:
    if w['pred'] in seen: continue
    seen.add(w['pred']); print(w['property'], w['pred']); print('   ', w['text'][:1800]); print('    replay:', w['replay'])
