#!/usr/bin/env python3
"""assemble_seeded.py <srcroot-pattern> <results-dir> <initial-results-dir|-> <first-index>
Builds /verif/seeded/<Cxx>-<k>/ (patch.diff, demo.cpp, notes.txt, meta.json) from what an independent sub-agent left in its scratch
worktree (<srcroot>/out/mutantK.diff, demoK.cpp, notesK.txt) and from the result of tools/try_mutant.py for it.
Only changes that were confirmed (patch applies, pinned tests pass with it, demonstration passes clean and fails changed) are kept."""
import sys, os, json, shutil, re
pat, resdir, initdir, first = sys.argv[1], sys.argv[2], sys.argv[3], int(sys.argv[4])
kept = 0
for p in ['C%02d' % i for i in range(1, 21)]:
    for k in (1, 2):
        src = pat.replace('{P}', p) + '/out'
        rj = os.path.join(resdir, '%s_%d.json' % (p, k))
        if not (os.path.exists(rj) and os.path.exists('%s/mutant%d.diff' % (src, k))): continue
        r = json.load(open(rj))
        dc, dd = r.get('demo_clean'), r.get('demo_changed')
        ok = r.get('applies') and r.get('tests_pass_with_change') and isinstance(dc, dict) and dc['rc'] == 0 and isinstance(dd, dict) and dd['rc'] != 0
        sid = '%s-%d' % (p, first + k - 1)
        if not ok:
            print('%s NOT CONFIRMED: applies=%s tests=%s clean=%s changed=%s' % (sid, r.get('applies'), r.get('tests_pass_with_change'), str(dc)[:80], str(dd)[:80])); continue
        d = os.path.join('/verif/seeded', sid); os.makedirs(d, exist_ok=True)
        shutil.copy('%s/mutant%d.diff' % (src, k), d + '/patch.diff'); shutil.copy('%s/demo%d.cpp' % (src, k), d + '/demo.cpp')
        notes = open('%s/notes%d.txt' % (src, k)).read() if os.path.exists('%s/notes%d.txt' % (src, k)) else ''
        open(d + '/notes.txt', 'w').write(notes)
        meta = dict(id=sid, property=p, origin='independent sub-agent given only the property text and a scratch worktree (second round)',
                    needs_to_manifest=re.sub(r'^COMPILE:.*\n', '', notes)[:1800],
                    confirmed=dict(patch_applies_to_repo_head=True, pinned_tests_pass_with_change=True, demo_on_clean_tree=dc, demo_with_change=dict(rc=dd['rc'], output=dd['output'][-600:]),
                                   how='tools/try_mutant.py in a scratch git worktree of /repo (removed afterwards)', when=r.get('when')),
                    checks={c: dict(detected=v['detected'], rc=v['rc'], violations=v['violations'], first=v['first'][:2], tier=r.get('tier'), wall_s=v['wall_s']) for c, v in r['checks'].items()})
        if initdir != '-' and os.path.exists(os.path.join(initdir, '%s_%d.json' % (p, k))):
            ri = json.load(open(os.path.join(initdir, '%s_%d.json' % (p, k))))
            meta['first_evaluation'] = {c: dict(detected=v['detected'], rc=v['rc'], note=('machinery was mid-edit (harness did not build), not a verdict' if v['rc'] == 2 else '')) for c, v in ri['checks'].items()}
        json.dump(meta, open(d + '/meta.json', 'w'), indent=1)
        kept += 1
        print('%s kept: %s' % (sid, {c: v['detected'] for c, v in r['checks'].items()}))
print('kept', kept)
